"""C14: failed evaluations are contained: recorded, imputed, never corrupting other data."""
from __future__ import annotations

import math
import random

import numpy as np

from common import Ctx, enc, run_model, ModelError, import_amisc
from p_misc import margin, snapshot
import systems


class Fault(Exception):
    pass


def make_component(seed, mode, fail_at, fail_kind, log):
    """a 1-2 input, 2-output component with optional model fidelity; the k-th model evaluation (1-based, in call order) fails if k in fail_at:
    'raise' -> exception, 'nan' -> both outputs NaN, 'nan-one' -> only the first output NaN, 'nan-part' -> only one entry of the array-valued
    extra return `prof` NaN.  mode: 'serial' | 'vector' | 'executor'.  Non-vectorised models also report a cost (2 + sum(alpha)) and return the
    extra 3-entry array `prof`."""
    from amisc import Component, Variable
    from amisc.training import SparseGrid
    r = random.Random(seed)
    nx = r.randint(1, 2); na = r.randint(0, 1); kpl = r.randint(1, 2)
    levels = [r.randint(1, 2) for _ in range(nx)]
    xs = [Variable(f'x{k}', distribution='U(0, 1)') for k in range(nx)]
    ys = [Variable('p'), Variable('q')]
    cp = [r.randint(-3, 3) / 2 for _ in range(nx)]; cq = [r.randint(-3, 3) / 2 for _ in range(nx)]
    counter = {'k': 0}
    fail_kind0 = fail_kind

    def value(x, alpha):
        a = sum(alpha)
        return (sum(c * math.cos(2.0 * xv + k) for k, (c, xv) in enumerate(zip(cp, x))) + 0.5 * a,
                sum(c * xv * xv for c, xv in zip(cq, x)) + 1.0 + 0.25 * a)

    def prof_of(p, q):
        return np.array([p + q, 1.0 + p * q, 3.0 + p - q])

    def one(x, alpha):
        counter['k'] += 1
        k = counter['k']
        p, q = value(x, alpha)
        failed = k in fail_at
        fail_kind = fail_kind0
        if failed and fail_kind0 == 'mixed':      # several failures of DIFFERENT modes in one run: raise / NaN alternately
            fail_kind = 'raise' if sorted(fail_at).index(k) % 2 == 0 else 'nan'
        log.append({'k': k, 'alpha': tuple(alpha), 'x': tuple(x), 'failed': failed, 'kind': fail_kind if failed else None})
        if failed:
            if fail_kind == 'raise':
                raise Fault(f'evaluation {k} failed')
            if fail_kind == 'nan':
                return float('nan'), float('nan'), prof_of(p, q)
            if fail_kind == 'nan-part':
                pr = prof_of(p, q); pr[1] = float('nan')
                return p, q, pr
            return float('nan'), q, prof_of(p, q)
        return p, q, prof_of(p, q)

    if mode == 'vector':
        def model(inputs, model_fidelity=None):
            cols = [np.atleast_1d(np.asarray(inputs[f'x{k}'], dtype=float)) for k in range(nx)]
            N = len(cols[0])
            mf = np.atleast_2d(model_fidelity) if model_fidelity is not None else np.zeros((N, 0))
            out = [one(tuple(c[i] for c in cols), tuple(int(v) for v in (mf[i] if mf.shape[0] == N else mf[0]))) for i in range(N)]
            return {'p': np.array([o[0] for o in out]), 'q': np.array([o[1] for o in out])}
    else:
        def model(inputs, model_fidelity=None):
            alpha = tuple(int(v) for v in np.atleast_1d(model_fidelity)) if model_fidelity is not None else ()
            p, q, prof = one(tuple(float(inputs[f'x{k}']) for k in range(nx)), alpha)
            return {'p': p, 'q': q, 'prof': prof, 'model_cost': 2.0 + sum(alpha)}
    kw = {'data_fidelity': tuple(levels)}
    if na:
        kw['model_fidelity'] = (1,) * na
    comp = Component(model, xs, ys, name='fc', vectorized=(mode == 'vector'), training_data=SparseGrid(knots_per_level=kpl), **kw)
    return comp, nx, na, levels, value, prof_of


def run_history(seed, mode, fail_at, fail_kind, nsteps):
    import c15
    log = []
    comp, nx, na, levels, value, prof_of = make_component(seed, mode, fail_at, fail_kind, log)
    mx = (1,) * na + tuple(levels)
    r = random.Random(seed + 1)
    active, order = set(), []
    ex = saved = None
    if mode == 'executor':
        sr = random.Random(seed + 2)
        ex = c15.SchedExecutor(lambda m: sr.sample(range(m), m))
        saved = c15.install_wait(ex)
    err = None
    td0 = comp.training_data
    batches = []          # per activation: {'sets': [(alpha, [coords])], 'errs': [(alpha, coord, local index)]}
    o_set, o_err = td0.set, td0.set_errors

    def rec_set(alpha, beta, coords, yi):
        batches[-1]['sets'].append((tuple(alpha), [tuple(c) for c in coords]))
        return o_set(alpha, beta, coords, yi)

    def rec_err(alpha, beta, coords, errors):
        for c, e in zip(coords, errors):
            batches[-1]['errs'].append((tuple(alpha), tuple(c), int(e['index'])))
        return o_err(alpha, beta, coords, errors)
    td0.set, td0.set_errors = rec_set, rec_err
    try:
        for _ in range(nsteps):
            batches.append({'sets': [], 'errs': []})
            m = margin(active, mx)
            if not m:
                break
            c = r.choice(m)
            try:
                comp.activate_index(tuple(c[:na]), tuple(c[na:]), executor=ex)
            except Exception as e:
                err = f'{type(e).__name__}: {e}'
                break
            active.add(c); order.append(c)
    finally:
        td0.set, td0.set_errors = o_set, o_err
        if saved is not None:
            c15.restore_wait(saved)
    td = comp.training_data
    names = [f'x{k}' for k in range(nx)]
    stored = {}
    for alpha, d in td.yi_map.items():
        for coord, yi in d.items():
            stored[(tuple(alpha), tuple(coord))] = (float(yi['p']), float(yi['q']))
    errors = {(tuple(alpha), tuple(coord)) for alpha, d in td.error_map.items() for coord in d}
    imputed = {(tuple(alpha), tuple(coord)): {k: (float(v) if np.ndim(v) == 0 else [float(t) for t in v]) for k, v in yi.items() if k in ('p', 'q', 'prof')}
               for alpha, d in td.yi_nan_map.items() for coord, yi in d.items()}
    profs = {(tuple(alpha), tuple(coord)): [float('nan') if t is None else float(t) for t in np.ravel(np.asarray(yi['prof'], dtype=object))] for alpha, d in td.yi_map.items() for coord, yi in d.items() if 'prof' in yi}
    err_records = {(tuple(alpha), tuple(coord)): {'fidelity': tuple(int(v) for v in np.atleast_1d(rec.get('model_kwargs', {}).get('model_fidelity', ()))),
                                                  'inputs': tuple(float(np.ravel(rec['inputs'][v])[0]) for v in names)}
                   for alpha, d in td.error_map.items() for coord, rec in d.items()}
    costs = {'model_costs': {tuple(a): float(v) for a, v in comp.model_costs.items()},
             'misc_costs': {(tuple(a), tuple(b)): float(v) for a, b, v in comp.misc_costs}}
    handed = {}
    if err is None:
        for a, b in sorted(comp.active_set.union(comp.candidate_set)):
            try:
                # the array-valued extra return is an undeclared (object) quantity: where an evaluation RAISED it is stored as None, and asking
                # for it as numeric training data is outside the property; it is requested for the NaN kinds only
                yv = ['p', 'q'] + (['prof'] if mode != 'vector' and fail_kind not in ('raise', 'mixed') else [])
                _, yt = comp.get_training_data(a, b, y_vars=yv)
                handed[(tuple(a), tuple(b))] = {k: np.asarray(v, dtype=float).tolist() for k, v in yt.items() if k in ('p', 'q', 'prof')}
            except Exception as e:
                handed[(tuple(a), tuple(b))] = f'{type(e).__name__}: {e}'
    grids = {v: list(td.x_grids.get(v, [])) for v in names}
    pred = None
    if err is None and active:
        try:
            xq = {v: np.array([0.2, 0.55, 0.9]) for v in names}
            pred = {k: np.asarray(v).tolist() for k, v in comp.predict(xq).items()}
        except Exception as e:
            err = f'predict: {type(e).__name__}: {e}'
    return {'comp': comp, 'log': log, 'order': order, 'stored': stored, 'errors': errors, 'imputed': imputed, 'grids': grids, 'pred': pred,
            'raised': err, 'sets': snapshot(comp), 'names': names, 'na': na, 'batches': batches, 'profs': profs, 'err_records': err_records, 'costs': costs,
            'handed': handed}


def key_of(run, entry):
    """(alpha, coordinate) of a logged evaluation, from the grid the run ended with"""
    coord = []
    for v, xv in zip(run['names'], entry['x']):
        g = np.asarray(run['grids'][v])
        coord.append(int(np.argmin(np.abs(g - xv))))
    return (entry['alpha'], tuple(coord))


def nanfree(a):
    return a == a


def run_clear_retrain(ctx: Ctx):
    """a component trained with failing evaluations, cleared, and trained again without failures: nothing of the first life - failure records,
    imputed values, stored data - may survive into the second; it must equal a fresh failure-free component"""
    rng = ctx.rng
    for n in range(ctx.pick(3, 12)):
        seed = ctx.seed * 57 + n; kind = ['raise', 'nan'][n % 2]; nsteps = rng.randint(4, 6)
        fresh = run_history(seed, 'serial', set(), 'nan', nsteps)
        total = len(fresh['log'])
        if total < 3:
            continue
        fail_at = set(rng.sample(range(2, total + 1), min(total - 1, rng.randint(1, 3))))
        log = []
        comp, nx, na, levels, value, prof_of = make_component(seed, 'serial', fail_at, kind, log)
        case = {'clear_and_retrain': n, 'system_seed': seed, 'first_life_failures': sorted(fail_at), 'kind': kind}
        ctx.case(case, nontrivial=True, kind=f'clear-retrain:{kind}')
        try:
            for c in fresh['order']:                       # first life: the same history, with failures
                comp.activate_index(tuple(c[:na]), tuple(c[na:]))
            nerr1 = sum(len(d) for d in comp.training_data.error_map.values())
            comp.clear()
            for c in fresh['order']:                       # second life: the evaluation counter is past every failing position
                comp.activate_index(tuple(c[:na]), tuple(c[na:]))
        except Exception as e:
            ctx.violate('C14:training-raises', f'clear and retrain: {type(e).__name__}: {e}', case); continue
        td = comp.training_data
        errors = sorted((tuple(a), tuple(c)) for a, d in td.error_map.items() for c in d)
        imputed = sorted((tuple(a), tuple(c)) for a, d in td.yi_nan_map.items() for c in d)
        stored = {(tuple(a), tuple(c)): (float(yi['p']), float(yi['q'])) for a, d in td.yi_map.items() for c, yi in d.items()}
        if errors or imputed:
            ctx.violate('C14:failure-records-survive-clear', f'after clear() and a failure-free retraining the component lists failures at {errors} and imputed values at '
                        f'{imputed} (the first life had {nerr1} failure record(s))', case); continue
        if stored != fresh['stored']:
            bad = [k for k in fresh['stored'] if stored.get(k) != fresh['stored'][k]][:3]
            ctx.violate('C14:other-data-changed', f'after clear() and retraining, stored outputs differ from a fresh failure-free component at {bad}', case)


def run(ctx: Ctx):
    import_amisc()
    rng = ctx.rng
    ctx.rule = ('components with 1-2 inputs, 2 outputs, optional model fidelity; a scripted random admissible history is run once failure-free and then '
                'with the k-th model evaluation failing, for EVERY k (single failures) and for random subsets (multi-failures), in three failure kinds '
                '(raise, NaN in all outputs, NaN in one of two outputs, NaN in one entry of an array-valued extra return) and three execution modes (serial, vectorised, harness executor with a random '
                'completion order); compared with the failure-free run: index sets and weights, every stored output that did not fail (incl. the other '
                'output at a NaN point), error records = exactly the failed (fidelity, point), imputed values only where a value (entry) is missing, the data handed out by get_training_data, the '
                'content of error records (fidelity, inputs), the cost accounts, finite predictions; the error re-basing is also run through Model/Fault.v; non-trivial = a failing position other than the first')
    run_clear_retrain(ctx)
    lines, meta = [], []
    for n in range(ctx.pick(6, 30)):
        seed = ctx.seed * 31 + n
        nsteps = rng.randint(5, 7)
        base = run_history(seed, 'serial', set(), 'nan', nsteps)
        total = len(base['log'])
        positions = list(range(1, total + 1))
        jobs = [({k}, rng.choice(['raise', 'nan', 'nan-one', 'nan-part']), rng.choice(['serial', 'serial', 'vector', 'executor'])) for k in positions]
        if base['na']:          # mixed-fidelity batches through the executor: every position raising (error records must name the right fidelity)
            jobs += [({k}, 'raise', 'executor') for k in positions]
        for _ in range(ctx.pick(3, 10)):
            jobs.append((set(rng.sample(positions, min(len(positions), rng.randint(2, 4)))), rng.choice(['raise', 'nan', 'nan-one', 'nan-part']),
                         rng.choice(['serial', 'vector', 'executor'])))
        for _ in range(ctx.pick(2, 6)):
            if len(positions) >= 2:
                jobs.append((set(rng.sample(positions, min(len(positions), rng.randint(2, 4)))), 'mixed', rng.choice(['serial', 'executor'])))
        for fail_at, kind, mode in jobs:
            if mode == 'vector' and kind == 'raise':
                kind = 'nan'          # a vectorised model cannot fail for one sample only by raising
            if mode == 'vector' and kind == 'nan-part':
                kind = 'nan-one'      # the array-valued extra return exists only for the non-vectorised models
            case = {'system_seed': seed, 'steps': nsteps, 'fail_at': sorted(fail_at), 'kind': kind, 'mode': mode, 'evaluations': total}
            ctx.case(case, nontrivial=min(fail_at) > 1, kind=f'{kind}:{mode}')
            run_ = run_history(seed, mode, fail_at, kind, nsteps)
            # failed (fidelity, coordinate) pairs, located on the grids of the failure-free run (the grids do not depend on outputs)
            fk = {key_of({**run_, 'grids': base['grids']}, e) for e in run_['log'] if e['failed']}
            # the recorded finding: the FIRST point of some fidelity (its coordinate 0..0) failed, so nothing exists to impute from
            # (measured on the unchanged tree: only the very first evaluation of the component - zero fidelity, coordinate 0..0, when no
            # interpolator state exists yet - leads to the recorded failure; the first point of a higher fidelity is contained like any other)
            first_of_fidelity = any(all(c == 0 for c in coord) and all(a_ == 0 for a_ in alpha_) for alpha_, coord in fk)
            # F4 family: a fidelity ALL of whose evaluations failed has no data at all, nothing can be imputed and predicting raises
            by_alpha = {}
            for e_ in run_['log']:
                by_alpha.setdefault(e_['alpha'], []).append(e_['failed'])
            dead_fidelity = any(all(v_) for v_ in by_alpha.values())
            # F4 family: an index ALL of whose own grid points failed (its first point among them) has no valid data of its own either
            dead_index = False
            try:
                td_ = run_['comp'].training_data; nx_ = len(run_['names'])
                for a_, b_ in run_['comp'].active_set.union(run_['comp'].candidate_set):
                    coords_ = [tuple(c_) for c_ in td_._expand_grid_coords(tuple(b_)[:nx_])]
                    if coords_ and all((tuple(a_), c_) in fk for c_ in coords_) and len(coords_) >= 2:
                        dead_index = True
            except Exception:
                dead_index = False
            if run_['raised']:
                ctx.violate('C14:first-evaluation-of-a-fidelity-fails' if first_of_fidelity else
                            'C14:every-evaluation-of-a-fidelity-failed' if dead_fidelity else
                            'C14:every-point-of-an-index-failed' if dead_index else 'C14:training-raises-after-failure',
                            f'training with evaluation(s) {sorted(fail_at)} failing ({kind}, {mode}; failed points {sorted(fk)}) raised {run_["raised"]}', case)
                continue
            # index sets and weights are those of the failure-free run
            if run_['sets'] != base['sets'] or run_['order'] != base['order']:
                ctx.violate('C14:sets-or-weights-change', 'index sets / weights differ from the failure-free run for the same activations', case)
            # the interpolator states hold grids and weights only: they are those of the failure-free run
            bst = {(tuple(a_), tuple(b_)): st_ for a_, b_, st_ in base['comp'].misc_states}
            for a_, b_, st_ in run_['comp'].misc_states:
                b0 = bst.get((tuple(a_), tuple(b_)))
                if b0 is None:
                    continue
                g1 = {str(v_): [float(t_) for t_ in g_] for v_, g_ in st_.x_grids.items()}; g0 = {str(v_): [float(t_) for t_ in g_] for v_, g_ in b0.x_grids.items()}
                w1 = {str(v_): [float(t_) for t_ in g_] for v_, g_ in st_.weights.items()}; w0 = {str(v_): [float(t_) for t_ in g_] for v_, g_ in b0.weights.items()}
                if g1 != g0 or w1 != w0:
                    # recorded finding (F4 family): an index created in the data direction while NO evaluation at its fidelity has succeeded yet
                    # (the first point of that fidelity failed, nothing to impute from) keeps the grid of the index it was created from
                    prefix = bool(g1) and all(len(g1[v_]) >= 1 and g1[v_] == g0.get(v_, [])[:len(g1[v_])] for v_ in g1) and set(g1) == set(g0)
                    first_failed = any(tuple(al_) == tuple(a_) and all(c_ == 0 for c_ in co_) for al_, co_ in fk)
                    if prefix and first_failed:
                        ctx.violate('C14:index-built-while-its-fidelity-had-no-valid-data', f'index {(tuple(a_), tuple(b_))} keeps the grids {g1} (failure-free: {g0}): '
                                    f'it was built when every evaluation at fidelity {tuple(a_)} had failed (failed points {sorted(fk)})', case); break
                    ctx.violate('C14:interpolator-state-differs-from-failure-free-run', f'the interpolator state of index {(tuple(a_), tuple(b_))} has grids {g1} / '
                                f'weights {w1}; failure-free: {g0} / {w0} (failed points {sorted(fk)})', case); break
            # in executor mode the call counter follows the completion order: identify failures by (fidelity, point)
            failed_keys = {key_of(run_, e) for e in run_['log'] if e['failed']}
            base_by_key = {key_of(base, e): e for e in base['log']}
            # error records: exactly the failed evaluations that raised
            want_err = (failed_keys if kind == 'raise' else {key_of(run_, e) for e in run_['log'] if e['failed'] and e['kind'] == 'raise'} if kind == 'mixed' else set())
            if run_['errors'] != want_err:
                ctx.violate('C14:error-record-misplaced', f'errors recorded at {sorted(run_["errors"])}, the failing evaluations were at {sorted(want_err)}', case)
            # every other stored output is identical to the failure-free run
            for k, (p0, q0) in base['stored'].items():
                if k not in run_['stored']:
                    ctx.violate('C14:stored-data-missing', f'no stored data at {k}', case); break
                p1, q1 = run_['stored'][k]
                if k in failed_keys and kind == 'nan-part':
                    exp_p, exp_q = p0, q0
                elif k in failed_keys:
                    exp_p = float('nan'); exp_q = q0 if kind == 'nan-one' else float('nan')
                else:
                    exp_p, exp_q = p0, q0
                ok = ((p1 != p1) if exp_p != exp_p else p1 == exp_p) and ((q1 != q1) if exp_q != exp_q else q1 == exp_q)
                if not ok:
                    ctx.violate('C14:other-data-corrupted', f'stored outputs at {k} are {(p1, q1)}, expected {(exp_p, exp_q)} (failure-free: {(p0, q0)}; '
                                f'failed points: {sorted(failed_keys)})', case); break
            # imputed values only where something is missing, and they leave present values alone
            for k, d in run_['imputed'].items():
                if k not in failed_keys:
                    ctx.violate('C14:imputed-where-nothing-missing', f'an imputed value exists at {k}, which did not fail', case); break
                if kind in ('nan-one', 'nan-part') and abs(d['q'] - base['stored'][k][1]) > 0:
                    ctx.violate('C14:imputation-overwrites-present-output', f'at {k} output q was present ({base["stored"][k][1]}) but the imputed record holds {d["q"]}', case)
                if kind == 'nan-part':
                    bp = base['profs'][k]; ip = d.get('prof')
                    if abs(d['p'] - base['stored'][k][0]) > 0 or not isinstance(ip, list) or len(ip) != 3 or ip[0] != bp[0] or ip[2] != bp[2] or not math.isfinite(ip[1]):
                        ctx.violate('C14:imputation-overwrites-present-output', f'at {k} only entry 1 of the array-valued output was missing (failure-free '
                                    f'{bp}, p={base["stored"][k][0]}) but the imputed record holds prof={ip}, p={d["p"]}', case)
            # array-valued extra return: NaN exactly where it failed, identical elsewhere
            if mode != 'vector':
                for k, bp in base['profs'].items():
                    gp = run_['profs'].get(k)
                    if k in failed_keys and kind == 'nan-part':
                        okp = gp is not None and gp[0] == bp[0] and gp[2] == bp[2] and gp[1] != gp[1]
                    elif k in failed_keys:
                        continue
                    else:
                        okp = gp == bp
                    if not okp:
                        ctx.violate('C14:other-data-corrupted', f'stored array-valued output at {k} is {gp}, failure-free {bp} (failed points {sorted(failed_keys)})', case); break
            # the data handed to the interpolator: identical to the failure-free data except at failed entries, which are finite
            for ab, yb in base['handed'].items():
                yg = run_['handed'].get(ab)
                if isinstance(yb, str):
                    continue
                if not isinstance(yg, dict):
                    ctx.violate('C14:training-data-unavailable', f'get_training_data{ab}: {yg}', case); break
                a_, b_ = ab
                coords = list(run_['comp'].training_data._expand_grid_coords(b_))
                bad = None
                for name in ('p', 'q', 'prof'):
                    if name not in yb or name not in yg:
                        continue
                    A = np.asarray(yb[name], dtype=float); G = np.asarray(yg.get(name, []), dtype=float)
                    if A.shape != G.shape:
                        bad = f'{name}: shape {G.shape} vs {A.shape}'; break
                    for j, c in enumerate(coords):
                        failed_here = (a_, tuple(c)) in failed_keys
                        ra, rg = np.ravel(A[j]), np.ravel(G[j])
                        for e in range(len(ra)):
                            missing = failed_here and (kind in ('raise', 'nan', 'mixed') or (kind == 'nan-one' and name == 'p') or (kind == 'nan-part' and name == 'prof' and e == 1))
                            if missing:
                                if not math.isfinite(rg[e]):
                                    bad = f'{name}[{e}] at {c} is {rg[e]} (a failed entry must be imputed)'
                            elif rg[e] != ra[e]:
                                bad = f'{name}[{e}] at {c} is {rg[e]}, failure-free {ra[e]}, and that entry did not fail'
                        if bad:
                            break
                    if bad:
                        break
                if bad:
                    ctx.violate('C14:training-data-differs-where-nothing-failed', f'get_training_data{ab}: {bad} (failed points {sorted(failed_keys)})', case); break
            # error records name the failed evaluation: its fidelity and its inputs
            for k, rec in run_['err_records'].items():
                xs_ = tuple(float(run_['grids'][v][k[1][j]]) for j, v in enumerate(run_['names']))
                if rec['fidelity'] != k[0] or any(abs(u - w) > 1e-12 for u, w in zip(rec['inputs'], xs_)):
                    ctx.violate('C14:error-record-wrong-content', f'the error record at {k} names fidelity {rec["fidelity"]} and inputs {rec["inputs"]}; the failed '
                                f'evaluation had fidelity {k[0]} and inputs {xs_}', case); break
            # cost accounts: failures do not change the cost per evaluation nor the number of points charged to an index
            if mode != 'vector':
                for which in ('model_costs', 'misc_costs'):
                    for key, v0 in base['costs'][which].items():
                        v1 = run_['costs'][which].get(key)
                        if v1 is None or not (abs(v1 - v0) <= 1e-9 * (1 + abs(v0))):
                            # the cost of a fidelity whose very first evaluation failed is unknowable when its index is charged (the default 1.0
                            # per point is used): finite values are accepted there, NaN never is
                            ka = key if which == 'model_costs' else key[0]
                            if (v1 == v1 or (v1 is None and which == 'model_costs')) and any(a_ == ka and all(c == 0 for c in coord) for a_, coord in failed_keys):
                                continue
                            ctx.violate('C14:cost-account-changed-by-failure', f'{which}[{key}] is {v1}, failure-free {v0} (failed points {sorted(failed_keys)}, {kind})', case)
                            break
            if run_['pred'] is None or any(not np.all(np.isfinite(v)) for v in run_['pred'].values()):
                ctx.violate('C14:prediction-not-finite', f'prediction after contained failures: {run_["pred"]}', case)
            # correspondence: the error re-basing of every observed batch through Model/Fault.v
            if kind == 'raise':
                for b in run_['batches']:
                    if not b['sets']:
                        continue
                    flat = [(a, c) for a, coords in b['sets'] for c in coords]
                    errs = sorted(flat.index(k) for k in failed_keys if k in flat)
                    sizes = [len(coords) for _, coords in b['sets']]
                    want = []
                    for a, coords in b['sets']:
                        want.append(sorted(j for (ea, ec, j) in b['errs'] if ea == a and ec in coords and coords.index(ec) == j))
                    lines.append('fault_rebase ' + enc([sizes, errs]))
                    meta.append(({**case, 'sizes': sizes, 'error_positions': errs}, want))
    for (case, want), mo in zip(meta, run_model(lines) if lines else []):
        ctx.count('rebase_cases')
        if isinstance(mo, ModelError):
            ctx.disagree('C14:model-error', case, str(mo), None); continue
        if [sorted(g) for g in mo] != want:
            ctx.disagree('C14:error re-basing', case, mo, want)
