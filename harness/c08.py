"""C08: each refinement step activates the best candidate; training stops when it must."""
from __future__ import annotations

from fractions import Fraction

import numpy as np

from common import Ctx, enc, q, unq, run_model, ModelError, import_amisc
import systems


def rel_err(pred, targ):
    pred, targ = np.asarray(pred, dtype=float), np.asarray(targ, dtype=float)
    with np.errstate(divide='ignore', invalid='ignore'):
        e = np.sqrt(np.sum((pred - targ) ** 2) / np.sum(targ ** 2))
    return float(e) if np.isfinite(e) else float('nan')


def external_indicators(system, targets, nr):
    """recompute, from public calls only, what a refinement step bases its choice on (the caller seeds numpy)"""
    x = system.sample_inputs(nr)
    y_curr = system.predict(x, index_set='train', targets=targets)
    scan = []
    for ci, comp in enumerate(system.components):
        if not comp.has_surrogate:
            continue
        for pos, (a, b) in enumerate(list(comp.candidate_set)):
            y_c = system.predict(x, targets=targets, index_set={comp.name: {(a, b)}}, incremental={comp.name: True})
            errs = [rel_err(y_c[v], y_curr[v]) for v in y_c if v in targets]
            outs = [(np.ravel(np.asarray(y_c[v], dtype=float)).tolist(), np.ravel(np.asarray(y_curr[v], dtype=float)).tolist()) for v in y_c if v in targets]
            good = [e for e in errs if e == e]
            err = max(good) if good else float('nan')
            cost = max(1.0, float(comp.get_cost(a, b)))
            scan.append({'comp': comp.name, 'ci': ci, 'pos': pos, 'alpha': tuple(a), 'beta': tuple(b), 'err': err, 'cost': float(comp.get_cost(a, b)),
                         'indicator': err / cost if err == err else float('nan'), 'outs': outs})
    return scan


def run_steps(ctx: Ctx):
    rng = ctx.rng
    lines, meta = [], []
    lines2, meta2 = [], []
    for n in range(ctx.pick(10, 120)):
        costs = {f'c{k}': rng.choice([0.25, 1.0, 2.0, 5.0]) for k in range(5)} if rng.random() < 0.7 else None
        by_alpha = costs is not None and rng.random() < 0.5
        if by_alpha:           # the reported cost depends on the model fidelity; the harness keeps its own ledger of the calls
            costs = {k: ('by_alpha', v) for k, v in costs.items()}
        logs = {}
        focus_last = n % 3 == 0      # stratified: a third of the systems are chains trained for the outputs of their LAST component only
        system, spec = systems.random_chain_system(rng, ncomp=(rng.randint(2, 3) if focus_last else rng.randint(1, 3)),
                                                   with_alpha=(True if by_alpha else rng.random() < 0.5), name=f'r{n}', costs=costs, logs=logs)
        outs_all = [o for s in spec for o in s['outputs']]
        targets = None if rng.random() < 0.5 else rng.sample(outs_all, rng.randint(1, len(outs_all)))
        if focus_last:
            targets = list(spec[-1]['outputs'])
        tlist = targets or outs_all
        nr = rng.choice([5, 20, 50]); ub = rng.random() < 0.5
        use_ex = n % 4 == 1
        case0 = {'system': n, 'components': [(s['name'], s['levels'], s['na']) for s in spec], 'costs': costs, 'targets': targets, 'executor': use_ex,
                 'num_refine': nr, 'update_bounds': ub}
        # initialisation: one uninitialised component per step, in listing order, before anything else
        ninit = 0
        for k, comp in enumerate(system.components):
            res = system.refine(targets=targets, num_refine=nr, update_bounds=ub)
            ninit += 1
            zero = (tuple([0] * len(comp.model_fidelity)), tuple([0] * len(comp.max_beta)))
            if res['component'] != comp.name or (tuple(res['alpha']), tuple(res['beta'])) != zero or len(comp.active_set) != 1:
                ctx.violate('C08:initialisation-order', f'step {k} of an untrained system returned {res["component"]} {res["alpha"]} {res["beta"]}, '
                            f'expected the initialisation of {comp.name}', case0)
        for step in range(rng.randint(2, ctx.pick(6, 10))):
            seed = rng.randint(0, 2 ** 31)
            np.random.seed(seed)
            scan = external_indicators(system, tlist, nr)
            before = {c.name: (set(c.active_set), set(c.candidate_set)) for c in system.components}
            np.random.seed(seed)
            if use_ex:      # the candidates are scored through an executor that completes the predictions in a random order
                import c15, random as _random
                ex = c15.SchedExecutor(lambda m, _r=_random.Random(seed): _r.sample(range(m), m))
                saved_wait = c15.install_wait(ex)
                try:
                    res = system.refine(targets=targets, num_refine=nr, update_bounds=ub, executor=ex)
                finally:
                    c15.restore_wait(saved_wait)
            else:
                res = system.refine(targets=targets, num_refine=nr, update_bounds=ub)
            case = {**case0, 'step': ninit + step, 'numpy_seed': seed, 'scan': [(s['comp'], s['alpha'], s['beta'], s['err'], s['cost']) for s in scan],
                    'chosen': (res['component'], res['alpha'], res['beta'])}
            nums = [s for s in scan if s['indicator'] == s['indicator']]
            ctx.case(case, nontrivial=len(scan) >= 2, kind='step')
            ctx.count('candidates_scanned', len(scan))
            if not scan:
                if res['component'] is not None:
                    ctx.violate('C08:activation-without-candidate', f'no candidate existed but {res["component"]} {res["alpha"]} {res["beta"]} was activated', case)
                break
            if res['component'] is None:
                if nums:
                    ctx.violate('C08:nothing-selected', f'{len(nums)} candidates had a numeric indicator but no index was activated', case)
                else:
                    ctx.violate('C08:all-indicators-NaN', 'every candidate indicator is NaN (relative change 0/0): training stops with candidates left', case)
                break
            chosen = [s for s in scan if s['comp'] == res['component'] and s['alpha'] == tuple(res['alpha']) and s['beta'] == tuple(res['beta'])]
            if not chosen:
                ctx.violate('C08:activated-index-not-a-candidate', f'activated {res["component"]} {res["alpha"]} {res["beta"]} which was not a candidate', case); break
            best = max(s['indicator'] for s in nums)
            if not (chosen[0]['indicator'] == chosen[0]['indicator'] and chosen[0]['indicator'] >= best * (1 - 1e-9) - 1e-300):
                ctx.violate('C08:not-the-best-candidate', f'activated {res["component"]} {res["alpha"]} {res["beta"]} with indicator {chosen[0]["indicator"]}, '
                            f'the best candidate has {best}', case); break
            # exactly one index activated, in that component only
            for c in system.components:
                a0, c0 = before[c.name]
                added = set(c.active_set) - a0
                want = {(tuple(res['alpha']), tuple(res['beta']))} if c.name == res['component'] else set()
                if {(tuple(a), tuple(b)) for a, b in added} != want:
                    ctx.violate('C08:not-exactly-one-activation', f'component {c.name}: indices {sorted(added)} became active in one step', case)
            if abs(res['added_cost'] - max(1.0, chosen[0]['cost'])) > 1e-9 or not (abs(res['added_error'] - chosen[0]['err']) <= 1e-9 * (1 + abs(chosen[0]['err']))):
                ctx.violate('C08:history-entry-wrong', f'history entry reports error {res["added_error"]} / cost {res["added_cost"]}, candidate had '
                            f'{chosen[0]["err"]} / {max(1.0, chosen[0]["cost"])}', case)
            # --- the costs the indicators divide by, against the harness' own ledger of model calls: per component and model fidelity the
            # costs charged to the indices of that fidelity add up to what the model reported for its evaluations at that fidelity
            if by_alpha:
                for k, c in enumerate(system.components):
                    if not c.has_surrogate:
                        continue
                    ledger = {}
                    for mf, xin in logs.get(c.name, []):
                        if mf is None:
                            continue
                        npts = len(next(iter(xin.values())))
                        rows = mf if len(mf) == npts else [mf[0]] * npts
                        for r in rows:
                            a_ = tuple(int(v) for v in r)
                            ledger[a_] = ledger.get(a_, 0.0) + costs[c.name][1] * (1 + 7 * sum(a_))
                    charged = {}
                    for a, b in c.active_set.union(c.candidate_set):
                        charged[tuple(a)] = charged.get(tuple(a), 0.0) + float(c.get_cost(a, b))
                    if any(abs(charged.get(a_, 0.0) - v) > 1e-9 * (1 + v) for a_, v in ledger.items()):
                        ctx.violate('C08:cost-account-differs-from-calls', f'component {c.name}: costs charged per fidelity {charged}, the model reported '
                                    f'{ledger} for its evaluations', case); break
            # --- correspondence with the extracted scan (skip when the two largest indicators are within rounding)
            top = sorted((s['indicator'] for s in nums), reverse=True)
            if len(top) < 2 or top[0] - top[1] > 1e-9 * (1 + abs(top[0])):
                lines.append('refine_select ' + enc([[[s['ci'], s['pos'], ([] if s['err'] != s['err'] else [q(s['err'])]), q(s['cost'])] for s in scan]]))
                meta.append((case, (chosen[0]['ci'], chosen[0]['pos'])))
                # ... and from the look-ahead predictions themselves: relative errors, their maximum over the requested outputs and the division by
                # max(1, cost) recomputed by the extracted select_sq in exact rationals (squares; Props/C08X.v: same choice)
                if sum(len(p_) for s in scan for p_, _ in s['outs']) <= 4000:
                    enc_v = lambda vals: [[] if v != v else [q(Fraction(v))] for v in vals]
                    lines2.append('refine_select_sq ' + enc([[[s['ci'], s['pos'], [[enc_v(p_), enc_v(t_)] for p_, t_ in s['outs']], q(Fraction(s['cost']))] for s in scan]]))
                    meta2.append((case, (chosen[0]['ci'], chosen[0]['pos']), [s['indicator'] for s in scan]))
    for (case, want, inds), mo in zip(meta2, run_model(lines2, shards=8) if lines2 else []):
        ctx.count('scans_from_predictions_compared')
        if isinstance(mo, ModelError):
            ctx.disagree('C08:model-error', case, str(mo), None); continue
        if list(mo[0]) != [list(want)]:
            ctx.disagree('C08:select from predictions', case, mo[0], want); continue
        for k_, (mi, fi) in enumerate(zip(mo[1], inds)):
            m2 = None if not mi else unq(mi[0])
            if (m2 is None) != (fi != fi) or (m2 is not None and abs(Fraction(fi) ** 2 - m2) > Fraction(1, 10 ** 8) * (m2 + Fraction(1, 10 ** 30))):
                ctx.disagree('C08:error indicator from predictions', {**case, 'candidate': k_}, None if m2 is None else float(m2) ** 0.5, fi); break
    for (case, want), mo in zip(meta, run_model(lines) if lines else []):
        ctx.count('scans_compared')
        if isinstance(mo, ModelError):
            ctx.disagree('C08:model-error', case, str(mo), None); continue
        if list(mo) != [list(want)]:
            ctx.disagree('C08:select', case, mo, want)


def run_fit(ctx: Ctx):
    rng = ctx.rng
    for n in range(ctx.pick(8, 60)):
        system, spec = systems.random_chain_system(rng, ncomp=rng.randint(1, 3), with_alpha=rng.random() < 0.5, name=f'e{n}', max_level=1)
        np.random.seed(ctx.seed * 17 + n)
        mode = rng.choice(['count', 'count', 'exhaust', 'tol', 'runtime'])
        case = {'fit_system': n, 'components': [(s['name'], s['levels'], s['na']) for s in spec], 'mode': mode}
        cells = sum(int(np.prod([m + 1 for m in list(c.model_fidelity) + list(c.max_beta)])) for c in system.components if c.has_surrogate)
        ctx.case(case, nontrivial=True, kind=f'fit:{mode}')
        # recorded finding F8: refine() selects nothing when every candidate indicator is NaN (the surrogate built so far is identically zero
        # on the samples, so every relative change is x/0 -> NaN); fit() then stops with candidates left.  Detected independently of the
        # step counts below, by asking refine() itself on the state fit() stopped in.
        orig_fit = system.fit

        def f8_stop():
            if not any(len(c.candidate_set) for c in system.components if c.has_surrogate):
                return False
            rs0 = np.random.RandomState(3)
            xs0 = system.sample_inputs(64)
            y0 = system.predict(xs0, index_set='train')
            return all(np.all(np.asarray(v) == 0.0) for v in y0.values())
        _violate = ctx.violate

        def violate(sig, what, case_):
            if sig in ('C08:step-count', 'C08:exhaustion-incomplete', 'C08:history-vs-activations', 'C08:tolerance-exit') and f8_stop():
                return _violate('C08:all-indicators-NaN', what + ' (every candidate indicator is NaN: the surrogate built so far is identically zero)', case_)
            return _violate(sig, what, case_)
        ctx.violate = violate
        try:
            run_fit_case(ctx, rng, system, mode, cells, case)
        finally:
            ctx.violate = _violate


def run_fit_case(ctx, rng, system, mode, cells, case):
        if mode == 'count':
            k1 = rng.randint(1, min(6, cells)); k2 = rng.randint(0, 3)
            system.fit(max_iter=k1, num_refine=10, max_tol=-1.0)
            if len(system.train_history) != min(k1, cells):
                ctx.violate('C08:step-count', f'fit(max_iter={k1}) recorded {len(system.train_history)} steps ({cells} cells available)', case)
            if k2 and len(system.train_history) < cells:
                n0 = len(system.train_history)
                system.fit(max_iter=k2, num_refine=10, max_tol=-1.0)
                if len(system.train_history) != min(n0 + k2, cells):
                    ctx.violate('C08:step-count', f'continuing with max_iter={k2} from {n0} steps gave {len(system.train_history)}', case)
        elif mode == 'exhaust':
            system.fit(max_iter=10 ** 4, num_refine=8, max_tol=-1.0, runtime_hr=10.0)
            for c in system.components:
                if c.has_surrogate:
                    box = int(np.prod([m + 1 for m in list(c.model_fidelity) + list(c.max_beta)]))
                    if len(c.active_set) != box or len(c.candidate_set) != 0:
                        ctx.violate('C08:exhaustion-incomplete', f'training to exhaustion left component {c.name} with {len(c.active_set)}/{box} active '
                                    f'and {len(c.candidate_set)} candidates', case)
            if len(system.train_history) != cells:
                ctx.violate('C08:history-vs-activations', f'{len(system.train_history)} history entries for {cells} activated indices', case)
        elif mode == 'tol':
            system.fit(max_iter=10 ** 3, num_refine=8, max_tol=1e9)      # met by the first non-initialisation step
            ninit = sum(1 for c in system.components if c.has_surrogate)
            if cells > ninit and len(system.train_history) != ninit + 1:
                ctx.violate('C08:tolerance-exit', f'max_tol=1e9 should stop after the first error-driven step ({ninit}+1), history has {len(system.train_history)}', case)
        else:
            # a time budget that has NOT run out must not stop training: runtime_hr = 0.0005 h = 1.8 s, the few steps below take a fraction of that
            import time as _time
            k1 = rng.randint(2, min(5, cells)) if cells >= 2 else 1
            t0_ = _time.time()
            system.fit(max_iter=k1, num_refine=8, max_tol=-1.0, runtime_hr=0.0005)
            el_ = _time.time() - t0_
            if el_ < 1.5 and len(system.train_history) != min(k1, cells):
                ctx.violate('C08:step-count', f'fit(max_iter={k1}, runtime_hr=0.0005) stopped after {len(system.train_history)} steps and {el_:.2f} s: '
                            f'the budget of 1.8 s had not run out ({cells} cells available)', case)
            n_before = len(system.train_history)
            system.fit(max_iter=10 ** 3, num_refine=8, max_tol=-1.0, runtime_hr=0.0)
            if len(system.train_history) - n_before > 1:
                ctx.violate('C08:runtime-exit', f'runtime_hr=0 should stop after one step, {len(system.train_history) - n_before} steps were made', case)
        # one history entry per activation, never beyond the declared maxima
        nact = sum(len(c.active_set) for c in system.components if c.has_surrogate)
        if nact != len(system.train_history):
            ctx.violate('C08:history-vs-activations', f'{len(system.train_history)} history entries for {nact} active indices', case)
        for c in system.components:
            mx = tuple(c.model_fidelity) + tuple(c.max_beta)
            for a, b in c.active_set.union(c.candidate_set):
                if any(v > m for v, m in zip(tuple(a) + tuple(b), mx)):
                    ctx.violate('C08:beyond-maximum-fidelity', f'component {c.name} holds index {(a, b)} beyond {mx}', case)


def run_all_nan(ctx: Ctx):
    """the recorded corner: a target that is identically zero makes every relative change 0/0"""
    from amisc import Component, System, Variable
    x = Variable('x', distribution='U(0, 1)'); y = Variable('y')
    comp = Component(lambda inputs: {'y': 0.0 * np.asarray(inputs['x'])}, [x], [y], name='zero', vectorized=True, data_fidelity=(2,))
    system = System(comp, name='allnan')
    np.random.seed(1)
    system.fit(max_iter=5, num_refine=10, max_tol=-1.0)
    case = {'system': 'single component, model y = 0*x, data_fidelity=(2,)', 'fit': 'max_iter=5'}
    ctx.case(case, nontrivial=True, kind='all-nan')
    if len(system.train_history) < 3 and len(comp.candidate_set) > 0:
        ctx.violate('C08:all-indicators-NaN', 'target identically zero: every candidate indicator is NaN (0/0), refine() selects nothing and fit() '
                    f'stops after {len(system.train_history)} of 3 possible steps with {len(comp.candidate_set)} candidate(s) left', case)


def run(ctx: Ctx):
    import_amisc()
    ctx.rule = ('random feed-forward systems (1-3 polynomial components, optional model-fidelity dimension, per-component cost profiles through '
                'model_cost, random target subsets, num_refine 5-50, update_bounds on/off): initialisation order; then for each step the numpy seed is '
                'fixed, every candidate indicator is recomputed from public predict(incremental=...) calls, the real refine() is run from the same seed '
                'and its choice must be a current candidate with maximal indicator, activating exactly one index; the scan is also run through the '
                'extracted Model/Refine.v select; fit(): step counts, tolerance/runtime/no-candidate exits, one history entry per activation, '
                'exhaustion of all boxes; plus the all-NaN corner; non-trivial = at least two candidates scanned')
    run_steps(ctx)
    run_fit(ctx)
    run_all_nan(ctx)
