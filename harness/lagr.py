"""Shared helpers for the interpolator properties (C03, C05, C11, C17): exact references and model I/O."""
from __future__ import annotations

import itertools
from fractions import Fraction

import numpy as np

from common import enc, q, unq, frac, run_model, ModelError

REL = Fraction(float(1e-8))           # the double nearest to 1e-8, exactly (relative snapping tolerance)
ATOL = REL


def tol_of(nodes):
    """snapping tolerance of one dimension: 1e-8 * node spread (spread 0 -> 1), as interpolator.py computes it"""
    nodes = [Fraction(n) for n in nodes]
    s = max(nodes) - min(nodes) if nodes else Fraction(0)
    return REL * (s if s != 0 else 1)
TWO30 = Fraction(1, 2 ** 30)
TINY = Fraction(1, 2 ** 1000)


# ------------------------------------------------------------------------------------------------
# independent exact oracle: tensor-product Lagrange interpolation with plain basis polynomials
# ------------------------------------------------------------------------------------------------
def lbase_val(nodes, j, x):
    v = Fraction(1)
    for i, xi in enumerate(nodes):
        if i != j:
            v *= (x - xi) / (nodes[j] - xi)
    return v


def lbase_d1(nodes, j, x):
    """first derivative of the j-th Lagrange basis polynomial at x (exact)"""
    tot = Fraction(0)
    for m in range(len(nodes)):
        if m == j:
            continue
        term = Fraction(1) / (nodes[j] - nodes[m])
        for i, xi in enumerate(nodes):
            if i != j and i != m:
                term *= (x - xi) / (nodes[j] - xi)
        tot += term
    return tot


def lbase_d2(nodes, j, x):
    tot = Fraction(0)
    n = len(nodes)
    for m in range(n):
        if m == j:
            continue
        for l in range(n):
            if l == j or l == m:
                continue
            term = Fraction(1) / ((nodes[j] - nodes[m]) * (nodes[j] - nodes[l]))
            for i, xi in enumerate(nodes):
                if i not in (j, m, l):
                    term *= (x - xi) / (nodes[j] - xi)
            tot += term
    return tot


def tensor_lagrange(grids, ys, x, deriv=None):
    """grids: list of node lists (Fractions); ys: data in product (row-major) order; x: list of Fractions.
    deriv: None, (k,) for d/dx_k, (k,l) for d2/dx_k dx_l.  Returns (value, sum of |terms|)."""
    per_dim = []
    for k, (nodes, xk) in enumerate(zip(grids, x)):
        order = 0 if deriv is None else sum(1 for d in deriv if d == k)
        f = (lbase_val, lbase_d1, lbase_d2)[order]
        per_dim.append([f(nodes, j, xk) for j in range(len(nodes))])
    tot = Fraction(0); tot_abs = Fraction(0)
    for i, j in enumerate(itertools.product(*[range(len(g)) for g in grids])):
        b = Fraction(1)
        for k, jk in enumerate(j):
            b *= per_dim[k][jk]
        tot += b * ys[i]; tot_abs += abs(b * ys[i])
    return tot, tot_abs


# ------------------------------------------------------------------------------------------------
# protocol encodings
# ------------------------------------------------------------------------------------------------
def enc_grid(tol, nodes, weights):
    return [q(tol), [q(v) for v in nodes], [q(v) for v in weights]]


def state_grids(state, var_order, rel=REL):
    """grids (protocol form) of a LagrangeState in the given variable order, with the stored float weights; the first
    component is the RELATIVE tolerance, the model derives the absolute one from the node spread (Lagr.mk_grid)"""
    return [enc_grid(rel, np.asarray(state.x_grids[v]).tolist(), np.asarray(state.weights[v]).tolist()) for v in var_order]


def within(impl_float, exact: Fraction, bound_abs: Fraction, factor=TWO30, extra=Fraction(0)):
    """|impl - exact| <= factor * B + extra + tiny   (DESIGN 3.3)"""
    if impl_float != impl_float:      # NaN
        return False
    return abs(Fraction(float(impl_float)) - exact) <= factor * bound_abs + extra + TINY


def band_flags(grids_nodes, x):
    """per dim: 'on' (exactly a node), 'band' (within tol of a node but not on it), 'off'"""
    out = []
    for nodes, xk in zip(grids_nodes, x):
        tol = tol_of(nodes)
        if any(xk == n for n in nodes):
            out.append('on')
        elif any(abs(xk - n) <= tol for n in nodes):
            out.append('band')
        else:
            out.append('off')
    return out


def near_threshold(grids_nodes, x, guard=Fraction(1, 2 ** 20)):
    """True when some |x_k - node| is within the guard band around the snapping threshold (decision could differ by rounding)"""
    for nodes, xk in zip(grids_nodes, x):
        tol = tol_of(nodes)
        for n in nodes:
            d = abs(xk - n)
            if d != 0 and abs(d - tol) <= guard * tol:
                return True
    return False


def snap(grids_nodes, x):
    """the point the code actually evaluates at: a coordinate within tol of a node is moved onto that node
    (DESIGN C03: inside a snapping band the surrogate equals the interpolant at the snapped point, |snap x - x| <= tol)"""
    out = []
    for nodes, xk in zip(grids_nodes, x):
        tol = tol_of(nodes)
        near = [n for n in nodes if abs(xk - n) <= tol]
        out.append(near[0] if len(near) == 1 else xk)
    return out
