"""C04 (Model/Bounds.v): how the domains of scalar coupling variables move during System.fit.  A recorder (harness process only: the
names System.refine / System.predict are wrapped for the duration of one fit) notes, for every refinement step, the domains before and
after it and the coupling values of every prediction the step makes on its samples (current surrogate, then each candidate
surrogate; normalised units; only variables the current-surrogate prediction returned).
The extracted `fit_bounds` is run on the same guess, test-set values and per-step observations in exact rationals."""
from __future__ import annotations

from fractions import Fraction

import numpy as np

from common import ModelError, enc, q, unq


class BoundsRecorder:
    def __init__(self, system):
        self.system = system
        self.steps = []          # per refine call: {'before': {var: dom}, 'obs': {var: [floats]} | None, 'after': {var: dom}}
        self._cur = None

    def doms(self):
        return {str(k): tuple(map(float, v.get_domain())) for k, v in self.system.coupling_variables().items()
                if v.compression is None and v.get_domain() is not None}

    def __enter__(self):
        from amisc import System
        self._cls = System
        self._refine, self._predict = System.refine, System.predict
        rec = self

        def refine(self_, *a, **k):
            if self_ is not rec.system:
                return rec._refine(self_, *a, **k)
            rec._cur = {'before': rec.doms(), 'obs': None}
            try:
                return rec._refine(self_, *a, **k)
            finally:
                rec._cur['after'] = rec.doms()
                rec.steps.append(rec._cur); rec._cur = None

        def predict(self_, *a, **k):
            out = rec._predict(self_, *a, **k)
            if self_ is rec.system and rec._cur is not None:
                vals = {str(key): np.array(val, dtype=float, copy=True) for key, val in out.items()
                        if np.asarray(val).dtype.kind == 'f' and np.asarray(val).ndim == 1}
                if rec._cur['obs'] is None:        # the current surrogate on the step's samples
                    rec._cur['obs'] = vals
                else:                              # a candidate surrogate on the same samples: its coupling values count too
                    for key in rec._cur['obs']:
                        if key in vals:
                            rec._cur['obs'][key] = np.concatenate((rec._cur['obs'][key], vals[key]))
            return out
        System.refine, System.predict = refine, predict
        return self

    def __exit__(self, *exc):
        self._cls.refine, self._cls.predict = self._refine, self._predict
        return False


def kind_of(var):
    """([a, b] with x_raw = a x + b) or [] for minmax; None when the chain is not one of the rational order-preserving ones"""
    if not var.norm:
        return [q(Fraction(1)), q(Fraction(0))]
    names = [type(t).__name__ for t in var.norm]
    if names == ['Minmax']:
        return []
    if all(n_ in ('Linear', 'Zscore') for n_ in names):
        b = float(var.denormalize(np.array([0.0]))[0]); a = float(var.denormalize(np.array([1.0]))[0]) - b
        return [q(Fraction(a)), q(Fraction(b))] if a > 0 else None
    return None


def obs_list(arr):
    return [[] if not np.isfinite(v) else [q(Fraction(float(v)))] for v in np.ravel(arr)]


def add_case(ctx, case, system, rec: BoundsRecorder, guesses, kinds, est_obs, update_bounds):
    """queue one model line per scalar coupling variable"""
    for var, guess in guesses.items():
        if kinds.get(var) is None or not rec.steps:
            continue
        steps = []
        for st in rec.steps:
            o = (st['obs'] or {}).get(var)
            steps.append(obs_list(o) if o is not None else [])
        est = [est_obs[var]] if (est_obs and var in est_obs) else []
        ctx.flines_b.append('bounds_run ' + enc([kinds[var], [q(Fraction(guess[0])), q(Fraction(guess[1]))], est, 1 if update_bounds else 0, steps]))
        observed = [tuple(rec.steps[0]['before'][var])] + [tuple(st['after'][var]) for st in rec.steps]
        ctx.fmeta_b.append(({**case, 'coupling_variable': var, 'steps': len(steps)}, observed))
        # property-level: a domain only widens; bounds left fixed never move
        for a, b in zip(observed, observed[1:]):
            if not (b[0] <= a[0] and a[1] <= b[1]) or (not update_bounds and a != b):
                ctx.violate('C04:coupling-domain-moved-wrongly', f'domain of {var} went from {a} to {b} in one refinement step (update_bounds={update_bounds})',
                            {**case, 'coupling_variable': var}); break


def close(a, b):
    return a == b or abs(Fraction(a) - b) <= Fraction(1, 10 ** 11) * (abs(b) + 1)


def compare(ctx, run_model):
    lines, meta = getattr(ctx, 'flines_b', []), getattr(ctx, 'fmeta_b', [])
    for (case, observed), mo in zip(meta, run_model(lines, shards=4) if lines else []):
        ctx.count('bound_histories_compared')
        if isinstance(mo, ModelError):
            ctx.disagree('C04:model-error', case, str(mo), None); continue
        model = [tuple(unq(v) for v in mo[0])] + [tuple(unq(v) for v in d) for d in mo[1]]
        if len(model) != len(observed) or any(not (close(o[0], m[0]) and close(o[1], m[1])) for o, m in zip(observed, model)):
            ctx.disagree('C04:coupling-variable bounds during fit', case, [tuple(map(float, m)) for m in model], observed)
