"""C15: serial, vectorised and parallel execution agree under every schedule."""
from __future__ import annotations

import itertools
import time
from concurrent.futures import ALL_COMPLETED, Executor, Future, ThreadPoolExecutor

import numpy as np

from common import Ctx, enc, run_model, ModelError, import_amisc
import systems


class SchedExecutor(Executor):
    """submit() only queues; the tasks run when wait() is called, in an order chosen by `chooser(n)`.  Code that collects results in another
    way than through wait() (as_completed, result() on a pending future) would block forever on futures nobody runs: a watchdog timer runs a
    queue that has been left alone for three seconds - in the chosen order - so that such code shows its dependence on the completion order
    instead of hanging the check"""
    def __init__(self, chooser):
        import threading
        self.queue = []
        self.chooser = chooser
        self.schedules = []
        self._lock = threading.RLock()
        self._timer = None

    def submit(self, fn, *args, **kwargs):
        import threading
        f = Future()
        with self._lock:
            self.queue.append((f, fn, args, kwargs))
            if self._timer is None:
                self._timer = threading.Timer(3.0, self._watchdog)
                self._timer.daemon = True
                self._timer.start()
        return f

    def _watchdog(self):
        with self._lock:
            self._timer = None
            pending = bool(self.queue)
        if pending:
            self.run_queued()

    def run_queued(self):
        with self._lock:
            q, self.queue = self.queue, []
        order = self.chooser(len(q))
        self.schedules.append(list(order))
        for i in order:
            f, fn, a, k = q[i]
            if f.done():
                continue
            try:
                f.set_result(fn(*a, **k))
            except BaseException as e:      # noqa: BLE001 - the future carries it, like a real pool
                f.set_exception(e)


def install_wait(ex: SchedExecutor):
    """replace the name `wait` in the modules that use it (from the harness process; no source change)"""
    import amisc.component as C
    import amisc.system as S

    def sched_wait(fs, timeout=None, return_when=ALL_COMPLETED):
        ex.run_queued()
        return set(fs), set()
    saved = (C.wait, S.wait)
    C.wait = sched_wait; S.wait = sched_wait
    return saved


def restore_wait(saved):
    import amisc.component as C
    import amisc.system as S
    C.wait, S.wait = saved


def int_model_value(x, y):
    return float(int(3 * x) * 7 + int(2 * y) - 5)


def make_call_components():
    from amisc import Component, Variable
    xa, xb = Variable('a', domain=(0, 10)), Variable('b', domain=(0, 10))
    out = Variable('r')

    def packed(inputs):
        if int(inputs['a']) == 4:
            raise ValueError('model failure at a=4')
        return {'r': int_model_value(float(inputs['a']), float(inputs['b']))}

    def unpacked(a, b):
        if int(a) == 4:
            raise ValueError('model failure at a=4')
        r = int_model_value(float(a), float(b))
        return r

    def vectorised(inputs):
        a, b = np.asarray(inputs['a'], dtype=float), np.asarray(inputs['b'], dtype=float)
        return {'r': np.floor(3 * a) * 7 + np.floor(2 * b) - 5}
    cp = Component(packed, [xa, xb], [out], name='packed', vectorized=False)
    cu = Component(unpacked, [xa, xb], [out], name='unpacked', vectorized=False, call_unpacked=True, ret_unpacked=True)
    cv = Component(vectorised, [xa, xb], [out], name='vectorised', vectorized=True)
    return cp, cu, cv


def canon_ds(d):
    out = {}
    for k, v in d.items():
        if k == 'errors':
            out[k] = sorted(v.keys())
        else:
            out[k] = ([None if t != t else t for t in np.ravel(np.asarray(v, dtype=float)).tolist()]
                      if np.asarray(v).dtype != object else [str(t) for t in np.ravel(v)])
    return out


def run_call_model(ctx: Ctx):
    rng = ctx.rng
    cp, cu, cv = make_call_components()
    lines, meta = [], []
    for n in range(ctx.pick(40, 300)):
        N = rng.randint(1, 6)
        a = np.array([float(rng.randint(0, 9)) + rng.choice([0.0, 0.25]) for _ in range(N)])
        b = np.array([float(rng.randint(0, 9)) / 2 for _ in range(N)])
        fails = [int(v) == 4 for v in a]
        x = {'a': a, 'b': b}
        serial = canon_ds(cp.call_model(x))
        serial_u = canon_ds(cu.call_model(x))
        case0 = {'call': n, 'a': a.tolist(), 'b': b.tolist()}
        if serial != serial_u:
            ctx.violate('C15:packed-vs-unpacked', f'packed {serial} vs unpacked {serial_u}', case0)
        if not any(fails):
            vec = canon_ds(cv.call_model(x))
            if vec != serial:
                ctx.violate('C15:vectorised-vs-serial', f'vectorised {vec} vs serial {serial}', case0)
        perms = list(itertools.permutations(range(N))) if N <= 4 else [tuple(rng.sample(range(N), N)) for _ in range(12)]
        for perm in perms:
            ex = SchedExecutor(lambda m, p=perm: list(p) if m == len(p) else list(range(m)))
            saved = install_wait(ex)
            xk = x if rng.random() < 0.5 else {'b': b, 'a': a}       # the caller's dict may list the inputs in any order
            try:
                par = canon_ds(cp.call_model(xk, executor=ex))
                par_u = canon_ds(cu.call_model(xk, executor=ex))
                raw = cp.call_model(xk, executor=ex)
            finally:
                restore_wait(saved)
            # the error records name the sample that failed: its inputs and its position
            for i, rec in (raw.get('errors') or {}).items():
                ri = {k_: float(np.ravel(v_)[0]) for k_, v_ in rec['inputs'].items()}
                if ri != {'a': float(a[i]), 'b': float(b[i])} or int(rec['index']) != i:
                    ctx.violate('C15:error-record-misaligned', f'schedule {perm}: the error record of sample {i} holds inputs {ri} / index {rec["index"]}; '
                                f'the sample is a={a[i]}, b={b[i]}', {**case0, 'schedule': list(perm)})
            case = {**case0, 'schedule': list(perm)}
            ctx.case(case, nontrivial=N >= 2 and list(perm) != sorted(perm), kind=f'call_model:N={N}')
            if par != serial or par_u != serial:
                ctx.violate('C15:executor-vs-serial', f'schedule {perm}: executor gives {par} / {par_u}, serial gives {serial}', case)
            # correspondence with Model/Sched.v: results as small integers (None = raised)
            rs = [[] if fl else [int(int_model_value(float(av), float(bv))) + 100] for av, bv, fl in zip(a, b, fails)]
            lines.append('sched_gather ' + enc([rs, list(perm)]))
            want_vals = [None if fl else int_model_value(float(av), float(bv)) for av, bv, fl in zip(a, b, fails)]
            got_vals = [None if (i in par.get('errors', [])) else par['r'][i] for i in range(N)]   # NaN rows are None already
            meta.append((case, want_vals, got_vals))
    # ---- mixed-fidelity batches with failures: every error record carries the fidelity of the evaluation that failed
    from amisc import Component, Variable

    def packed_mf(inputs, model_fidelity=(0,)):
        if int(inputs['a']) == 4:
            raise ValueError('model failure at a=4')
        return {'r': int_model_value(float(inputs['a']), float(inputs['b'])) + 1000.0 * int(model_fidelity[0])}
    cm = Component(packed_mf, [Variable('a', domain=(0, 10)), Variable('b', domain=(0, 10))], [Variable('r')], name='packed_mf', vectorized=False,
                   model_fidelity=(3,))
    for n in range(ctx.pick(10, 80)):
        N = rng.randint(2, 6)
        a = np.array([float(rng.choice([4, 4, rng.randint(0, 9)])) for _ in range(N)]); b = np.array([float(rng.randint(0, 9)) / 2 for _ in range(N)])
        alphas = [(rng.randint(0, 3),) for _ in range(N)]
        case = {'mixed_fidelity_call': n, 'a': a.tolist(), 'b': b.tolist(), 'fidelities': [list(t) for t in alphas]}
        ctx.case(case, nontrivial=len(set(alphas)) > 1 and 4.0 in a, kind='call_model:mixed-fidelity')
        serial = cm.call_model({'a': a, 'b': b}, model_fidelity=alphas)
        perm = tuple(rng.sample(range(N), N))
        ex = SchedExecutor(lambda m, p=perm: list(p) if m == len(p) else list(range(m)))
        saved = install_wait(ex)
        try:
            par = cm.call_model({'a': a, 'b': b}, model_fidelity=alphas, executor=ex)
        finally:
            restore_wait(saved)
        if canon_ds(serial) != canon_ds(par):
            ctx.violate('C15:executor-vs-serial', f'mixed-fidelity batch, schedule {perm}: executor gives {canon_ds(par)}, serial gives {canon_ds(serial)}', case)
        for label, ds in (('serial', serial), ('executor', par)):
            for i, rec in (ds.get('errors') or {}).items():
                mf = tuple(int(t) for t in np.ravel(rec.get('model_kwargs', {}).get('model_fidelity', (-1,))))
                if mf != alphas[i] or int(rec['index']) != i:
                    ctx.violate('C15:error-record-misaligned', f'{label} path: the error record of sample {i} names fidelity {mf} / index {rec["index"]}; the evaluation that '
                                f'failed ran at fidelity {alphas[i]}', {**case, 'path': label}); break
    for (case, want, got), mo in zip(meta, run_model(lines, shards=8) if lines else []):
        ctx.count('schedules_compared')
        if isinstance(mo, ModelError):
            ctx.disagree('C15:model-error', case, str(mo), None); continue
        mvals = [None if r == [] else float(r[0] - 100) for r in mo[0]] if mo else None
        if mvals != got:
            ctx.disagree('C15:gathered-results', case, mvals, got)


def run_training(ctx: Ctx):
    """fit / predict with an executor under random completion orders versus no executor"""
    rng = ctx.rng
    for n in range(ctx.pick(5, 40)):
        seed_sys = rng.randint(0, 10 ** 6)
        results = []
        for mode in ('serial', 'sched', 'sched2'):
            import random
            r2 = random.Random(seed_sys)
            system, spec = systems.random_chain_system(r2, ncomp=r2.randint(1, 3), with_alpha=False, name=f't{n}')
            for c in system.components:      # serial (non-vectorised) models so that the executor is really used for model calls
                pass
            np.random.seed(ctx.seed * 5 + n)
            if mode == 'serial':
                system.fit(max_iter=5, num_refine=10, max_tol=-1.0)
                xs = system.sample_inputs(4)
                pred = system.predict(xs)
            else:
                sched_rng = random.Random(rng.randint(0, 10 ** 9))
                ex = SchedExecutor(lambda m: sched_rng.sample(range(m), m))
                saved = install_wait(ex)
                try:
                    system.fit(max_iter=5, num_refine=10, max_tol=-1.0, executor=ex)
                    xs = system.sample_inputs(4)
                    pred = system.predict(xs, executor=ex)
                finally:
                    restore_wait(saved)
                ctx.count('waits', len(ex.schedules)); ctx.count('tasks', sum(len(s) for s in ex.schedules))
            st = systems.system_state(system)
            # `added_error` floats may differ in the last bits with the summation order of look-ahead terms
            for h in st['history']:
                h['added_error'] = round(h['added_error'], 9) if h['added_error'] == h['added_error'] else 'nan'
            results.append((st, {k: np.asarray(v).tolist() for k, v in pred.items()}))
        case = {'training': n, 'system_seed': seed_sys}
        ctx.case(case, nontrivial=True, kind='fit+predict')
        for (st, pr), label in zip(results[1:], ('schedule A', 'schedule B')):
            if systems.digest(st) != systems.digest(results[0][0]):
                diff = [k for k in st['components'] if st['components'][k] != results[0][0]['components'][k]]
                ctx.violate('C15:training-depends-on-executor', f'{label}: trained state differs from the run without executor '
                            f'(components {diff}, history equal: {st["history"] == results[0][0]["history"]})', case)
            for k in pr:
                if not systems.floats_close(pr[k], results[0][1][k], rtol=1e-10, atol=1e-12):
                    ctx.violate('C15:prediction-depends-on-executor', f'{label}: prediction of {k} differs', case); break


def run_real_pools(ctx: Ctx):
    """supporting evidence only: a real thread pool with random per-task delays"""
    import random
    cp, cu, cv = make_call_components()
    delays = random.Random(ctx.seed)

    def slow(inputs):
        time.sleep(delays.random() * 0.004)
        if int(inputs['a']) == 4:
            raise ValueError('model failure at a=4')
        return {'r': int_model_value(float(inputs['a']), float(inputs['b']))}
    from amisc import Component
    cs = Component(slow, cp.inputs, cp.outputs, name='slow', vectorized=False)
    for n in range(ctx.pick(4, 40)):
        N = ctx.rng.randint(2, 12)
        x = {'a': np.array([float(ctx.rng.randint(0, 9)) for _ in range(N)]), 'b': np.array([float(ctx.rng.randint(0, 9)) for _ in range(N)])}
        serial = canon_ds(cp.call_model(x))
        with ThreadPoolExecutor(max_workers=ctx.rng.randint(2, 8)) as pool:
            par = canon_ds(cs.call_model(x, executor=pool))
        ctx.case({'pool_call': n, 'N': N}, nontrivial=True, kind='thread-pool')
        if par != serial:
            ctx.violate('C15:executor-vs-serial', f'thread pool gives {par}, serial {serial}', {'a': x['a'].tolist(), 'b': x['b'].tolist()})


def run(ctx: Ctx):
    import_amisc()
    ctx.rule = ('call_model on batches of 1-6 samples (one input value makes the model raise) through a harness executor whose tasks run only at '
                'wait() in a chosen order: all permutations for batches <= 4, random ones beyond; packed and unpacked signatures; vectorised '
                'twin; results and error indices compared with the serial path and with the extracted Model/Sched.v; fit() and predict() with the '
                'scheduling executor under two random schedules versus no executor (state digest, predictions); plus a real thread pool with random '
                'delays as supporting evidence; non-trivial = batch of >= 2 with a non-identity completion order')
    run_call_model(ctx)
    run_training(ctx)
    run_fidelity_executor(ctx)
    run_real_pools(ctx)
    run_real_fit(ctx)
    run_unsolvable_loop(ctx)


def run_fidelity_executor(ctx: Ctx):
    """models that depend on model_fidelity, trained and called through an executor: every task must run at ITS fidelity"""
    import random
    import c05
    rng = ctx.rng
    for n in range(ctx.pick(6, 50)):
        seed = rng.randint(0, 10 ** 9)
        states = []
        for mode in ('serial', 'executor'):
            r2 = random.Random(seed)
            nx = r2.randint(1, 2); na = r2.randint(1, 2); ny = r2.randint(1, 2); kpl = r2.randint(1, 2)
            levels = [r2.randint(1, 2) for _ in range(nx)]
            comp, fns = c05.make_rough_component(r2, nx, na, ny, levels, kpl)
            mx = (2,) * na + tuple(levels)
            if mode == 'serial':
                c05.grow(r2, comp, na, mx, 4)
                direct = comp.call_model({f'x{k}': np.array([0.3, 0.6, 0.9]) for k in range(nx)}, model_fidelity=[(0,) * na, (1,) * na, (2,) * na])
            else:
                sched = random.Random(seed + 1)
                ex = SchedExecutor(lambda m: sched.sample(range(m), m))
                saved = install_wait(ex)
                try:
                    active = set()
                    from p_misc import margin
                    for _ in range(4):
                        m_ = margin(active, mx)
                        if not m_:
                            break
                        c = r2.choice(m_)
                        comp.activate_index(tuple(c[:na]), tuple(c[na:]), executor=ex)
                        active.add(c)
                    direct = comp.call_model({f'x{k}': np.array([0.3, 0.6, 0.9]) for k in range(nx)},
                                             model_fidelity=[(0,) * na, (1,) * na, (2,) * na], executor=ex)
                finally:
                    restore_wait(saved)
            st = systems.comp_state(comp)
            states.append((st, canon_ds(direct)))
            if mode == 'serial':
                # predictions, Jacobians and Hessians of the trained component through an executor (random completion order) versus serially
                xq = {f'x{k}': np.array([0.31, 0.62, 0.93]) for k in range(nx)}
                sched2 = random.Random(seed + 2)
                ex2 = SchedExecutor(lambda m: sched2.sample(range(m), m))
                saved2 = install_wait(ex2)
                try:
                    for fname in ('predict', 'gradient', 'hessian'):
                        fn = getattr(comp, fname)
                        ser = fn(xq); par = fn(xq, executor=ex2)
                        for o in ser:
                            a_, b_ = np.asarray(ser[o], dtype=float), np.asarray(par[o], dtype=float)
                            if a_.shape != b_.shape or not np.allclose(a_, b_, rtol=1e-12, atol=1e-13, equal_nan=True):
                                ctx.violate('C15:executor-vs-serial', f'Component.{fname} of {o}: shape {b_.shape} / values through an executor differ from the '
                                            f'serial result (shape {a_.shape})', {'fidelity_executor': n, 'seed': seed, 'function': fname}); break
                except Exception as e:
                    ctx.violate('C15:executor-vs-serial', f'Component.{fname} through an executor raised {type(e).__name__}: {e}', {'fidelity_executor': n, 'seed': seed})
                finally:
                    restore_wait(saved2)
        case = {'fidelity_executor': n, 'seed': seed}
        ctx.case(case, nontrivial=True, kind='fidelity-executor')
        if states[0][1] != states[1][1]:
            ctx.violate('C15:executor-ignores-model-fidelity', f'call_model with per-sample fidelities: serial {states[0][1]} vs executor {states[1][1]}', case)
        if systems.digest(states[0][0]['data']) != systems.digest(states[1][0]['data']) or states[0][0]['active'] != states[1][0]['active']:     # digest: NaN-safe
            ctx.violate('C15:training-data-depends-on-executor', 'training data stored by activate_index(executor=...) differ from the serial run '
                        '(same activations)', case)


def run_real_fit(ctx: Ctx):
    """training through a REAL thread pool (8 workers) versus no executor: overlapping look-ahead predictions on one component must not
    interfere (supporting evidence: real interleavings cannot be enumerated)"""
    import random
    rng = ctx.rng
    for n in range(ctx.pick(3, 12)):
        seed_sys = rng.randint(0, 10 ** 6)
        out = []
        for mode in ('serial', 'threads'):
            r2 = random.Random(seed_sys)
            system, spec = systems.random_chain_system(r2, ncomp=r2.randint(1, 2), with_alpha=False, name=f"rt{n}", max_level=3)
            np.random.seed(ctx.seed * 19 + n)
            if mode == 'serial':
                system.fit(max_iter=8, num_refine=4000, max_tol=-1.0)
            else:
                with ThreadPoolExecutor(max_workers=8) as pool:
                    system.fit(max_iter=8, num_refine=4000, max_tol=-1.0, executor=pool)
            st = systems.system_state(system)
            for h in st['history']:
                h['added_error'] = round(h['added_error'], 9) if h['added_error'] == h['added_error'] else 'nan'
            out.append(st)
        case = {'real_pool_fit': n, 'system_seed': seed_sys}
        ctx.case(case, nontrivial=True, kind='thread-pool-fit')
        if systems.digest(out[0]) != systems.digest(out[1]):
            same_hist = [(h['component'], h['alpha'], h['beta']) for h in out[0]['history']] == [(h['component'], h['alpha'], h['beta']) for h in out[1]['history']]
            diff = [f'{c}.{k}' for c in out[0]['components'] for k in out[0]['components'][c] if out[0]['components'][c][k] != out[1]['components'][c].get(k)]
            ctx.violate('C15:training-depends-on-executor', f'fit() through an 8-thread pool differs from serial training: same refinement choices: {same_hist}; '
                        f'differing fields: {diff[:6]}', case)


def run_unsolvable_loop(ctx: Ctx):
    """a feedback loop without a fixed point (u0 = u1 + c, u1 = u0): no sample converges, every candidate look-ahead ends at the iteration
    limit and returns NaN.  Training with an executor must go the same way as without one (same history, NaN in the same places)."""
    import logging
    from concurrent.futures import ThreadPoolExecutor
    from amisc import Component, System, Variable
    rng = ctx.rng
    for n in range(ctx.pick(2, 8)):
        c = rng.choice([1.0, 0.5, 2.0]); seed = rng.randint(0, 10 ** 6)

        def build():
            x = Variable('x', distribution='U(0, 1)')
            u0 = Variable('u0', domain=(0, 1)); u1 = Variable('u1', domain=(0, 1))

            def fa(inputs, _c=c):
                return {'u0': np.asarray(inputs['u1'], dtype=float) + _c}

            def fb(inputs):
                return {'u1': np.asarray(inputs['u0'], dtype=float) + 0.0 * np.asarray(inputs['x'], dtype=float)}
            s_ = System(Component(fa, [u1], [u0], name='A', vectorized=True, data_fidelity=(2,)),
                        Component(fb, [u0, x], [u1], name='B', vectorized=True, data_fidelity=(1, 1)), name=f'nofix{n}')
            s_.logger.setLevel(logging.CRITICAL)
            return s_
        case = {'unsolvable_loop': n, 'offset': c, 'numpy_seed': seed}
        ctx.case(case, nontrivial=True, kind='fit:loop-without-fixed-point')
        runs = {}
        for mode in ('serial', 'thread-pool', 'scheduled'):
            system = build(); np.random.seed(seed)
            saved = None
            try:
                if mode == 'serial':
                    system.fit(max_iter=5, num_refine=12, max_tol=-1.0)
                elif mode == 'thread-pool':
                    with ThreadPoolExecutor(max_workers=2) as pool:
                        system.fit(max_iter=5, num_refine=12, max_tol=-1.0, executor=pool)
                else:
                    import random as _random
                    ex = SchedExecutor(lambda m, _r=_random.Random(seed): _r.sample(range(m), m))
                    saved = install_wait(ex)
                    system.fit(max_iter=5, num_refine=12, max_tol=-1.0, executor=ex)
            except BaseException as e:      # noqa: BLE001
                runs[mode] = f'raised {type(e).__name__}: {e}'
                continue
            finally:
                if saved is not None:
                    restore_wait(saved)
            np.random.seed(seed + 1)
            y = system.predict(system.sample_inputs(4))
            runs[mode] = ([(h['component'], tuple(h['alpha']), tuple(h['beta'])) for h in system.train_history],
                          {k: np.isnan(np.asarray(v, dtype=float)).tolist() for k, v in sorted(y.items())})
        for mode in ('thread-pool', 'scheduled'):
            if runs[mode] != runs['serial']:
                ctx.violate('C15:executor-vs-serial', f'loop without a fixed point, fit through a {mode} executor: {runs[mode] if isinstance(runs[mode], str) else runs[mode][0]}; '
                            f'without an executor: {runs["serial"] if isinstance(runs["serial"], str) else runs["serial"][0]}', {**case, 'executor': mode}); break
