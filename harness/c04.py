"""C04: trained systems reproduce coupled polynomial systems exactly as bounds move."""
from __future__ import annotations

import random
from fractions import Fraction

import numpy as np

from common import Ctx, enc, q, unq, run_model, ModelError, import_amisc
import systems

TWO30 = Fraction(1, 2 ** 30)


def chain_system(rng, depth, guess_kind, norm_kind, decl='domain', far=False, analytic_first=False):
    """feed-forward chain c0 -> c1 -> ... : each component is a polynomial of degree <= 2 in one exogenous input and (from the second on) in the
    previous component's output; data_fidelity resolves it exactly.  The coupling variables' TRUE ranges are computed exactly; their declared
    domains are deliberately wrong guesses (too narrow / too wide / offset), declared either as `domain=` or as a Uniform distribution (which
    update_domain keeps in sync and the Leja rule uses as weight function).  far=True puts the exogenous inputs on (1e6, 1e6 + 1), un-normalised,
    so that a length scale taken from the node magnitude instead of the node spread shows."""
    from amisc import Component, System, Variable
    specs = []
    lo, hi = Fraction(0), Fraction(1)
    xdom = []
    for k in range(depth):
        a = rng.choice([-1, 1, 2]); b = rng.choice([-1, 0, 1]); c = rng.choice([1, -1, 2]) if k else 0
        d = rng.choice([0, 1]) if k else 0          # quadratic term in the coupling input
        specs.append({'a': a, 'b': b, 'c': c, 'd': d})
    variables = {}
    comps = []
    # true ranges by brute force over a fine rational grid (monotone pieces are enough for a guess of the range)
    def f(k, x, u):
        s = specs[k]
        return s['a'] * x * x + s['b'] * x + s['c'] * u + s['d'] * Fraction(1, 4) * u * u

    prev_range = None
    ranges = []
    for k in range(depth):
        vals = []
        for i in range(21):
            x = Fraction(i, 20)
            if k == 0:
                vals.append(f(0, x, Fraction(0)))
            else:
                for j in range(21):
                    u = prev_range[0] + (prev_range[1] - prev_range[0]) * Fraction(j, 20)
                    vals.append(f(k, x, u))
        prev_range = (min(vals), max(vals))
        ranges.append(prev_range)
    norms = {'none': None, 'linear': 'linear(0.5, 1)', 'zscore': 'zscore(1, 2)', 'minmax': 'minmax'}
    L = 10 ** 6 if far else 0
    for k in range(depth):
        variables[f'x{k}'] = Variable(f'x{k}', distribution=f'U({L}, {L + 1})', norm=norms[norm_kind] if norm_kind != 'minmax' else 'minmax')
        tlo, thi = float(ranges[k][0]), float(ranges[k][1])
        w = (thi - tlo) or 1.0
        guess = {'exact': (tlo, thi), 'narrow': (tlo + 0.35 * w, thi - 0.35 * w), 'wide': (tlo - 3 * w, thi + 3 * w),
                 'offset': (thi + 0.5 * w, thi + 1.5 * w), 'unit': (0.0, 1.0)}[guess_kind]
        if not guess[1] > guess[0]:
            guess = (tlo, tlo + 1.0)
        if decl == 'uniform':
            variables[f'u{k}'] = Variable(f'u{k}', distribution=f'U({guess[0]!r}, {guess[1]!r})', norm=norms[norm_kind])
        elif decl == 'normal':
            # a coupling variable described by a Normal density and normalised by its mean and standard deviation (argument-free zscore): the
            # density must stay what it is while the domain moves
            mu_, sd_ = (guess[0] + guess[1]) / 2, (guess[1] - guess[0]) / 6
            variables[f'u{k}'] = Variable(f'u{k}', distribution=f'N({mu_!r}, {sd_!r})', norm='zscore')
        else:
            variables[f'u{k}'] = Variable(f'u{k}', domain=guess, norm=norms[norm_kind])
    for k in range(depth):
        s = specs[k]
        ins = [variables[f'x{k}']] + ([variables[f'u{k - 1}']] if k else [])

        def model(inputs, _k=k, _s=s):
            x = np.asarray(inputs[f'x{_k}'], dtype=float) - L
            u = np.asarray(inputs[f'u{_k - 1}'], dtype=float) if _k else 0.0
            return {f'u{_k}': _s['a'] * x * x + _s['b'] * x + _s['c'] * u + _s['d'] * 0.25 * u * u}
        if analytic_first and k == 0:      # a component without surrogate (its model is called directly) feeding surrogates through a normalised coupling variable
            comps.append(Component(model, ins, [variables[f'u{k}']], name=f'c{k}', vectorized=True))
        else:
            comps.append(Component(model, ins, [variables[f'u{k}']], name=f'c{k}', vectorized=True, data_fidelity=(2,) * len(ins)))
    return System(*comps, name='c04'), specs, f, L


def run_chains(ctx: Ctx):
    rng = ctx.rng
    for n in range(ctx.pick(12, 150)):
        depth = rng.randint(1, 4)
        guess = rng.choice(['exact', 'narrow', 'wide', 'offset', 'unit'])
        norm = rng.choice(['none', 'none', 'linear', 'zscore', 'minmax'])
        ub = rng.random() < 0.7; eb = rng.random() < 0.4
        decl = rng.choice(['domain', 'uniform', 'uniform', 'normal']); far = rng.random() < 0.3
        if decl == 'normal':
            norm = 'none'          # (the coupling variables carry their own zscore; nothing of the minmax finding F6 applies)
        if n < 3:          # stratified: the first chains always cover far-offset inputs / Uniform-declared offset guesses with estimated bounds
            depth = max(depth, 2)
            if n == 0:
                far, norm = True, 'none'
            else:
                decl, guess, eb, ub, norm = 'uniform', 'offset', True, (n == 2), 'none'
        analytic = depth >= 2 and (n == 3 or rng.random() < 0.25)
        if n == 5:      # stratified: Normal-declared coupling variables with the argument-free zscore, bounds updated during training
            depth = max(depth, 2); decl, norm, ub, eb, far, analytic = 'normal', 'none', True, False, False, False
        if n == 4:      # minmax with FIXED bounds and a wrong guess is exact (nothing moves): asking for fixed bounds must give fixed bounds
            depth = max(depth, 2); norm, ub, eb, guess, far = 'minmax', False, False, 'narrow', False
        if n == 3:
            depth = max(depth, 2); analytic = True; norm = 'linear'
        system, specs, f, L = chain_system(rng, depth, guess, norm, decl=decl, far=far, analytic_first=analytic)
        np.random.seed(ctx.seed * 23 + n)
        case = {'chain': n, 'depth': depth, 'specs': specs, 'initial_guess': guess, 'declared_as': decl, 'far_offset_inputs': far, 'norm': norm, 'first_component_without_surrogate': analytic,
                'update_bounds': ub, 'estimate_bounds': eb}
        ctx.case(case, nontrivial=depth >= 2, kind=f'chain:{guess}:{norm}:{decl}{":far" if far else ""}')
        test_set = None
        if eb:
            rs = np.random.RandomState(n)
            xt = {f'x{k}': L + rs.rand(20) for k in range(depth)}
            yt = system.predict(xt, use_model='best', normalized_inputs=False)
            test_set = (xt, {k: np.asarray(v) for k, v in yt.items()})
        import c04b
        cvars = {str(k_): v_ for k_, v_ in system.coupling_variables().items()}
        guesses = {k_: tuple(map(float, v_.get_domain())) for k_, v_ in cvars.items()}
        kinds = {k_: c04b.kind_of(v_) for k_, v_ in cvars.items()}
        est_obs = {k_: c04b.obs_list(np.asarray(v_.normalize(test_set[1][k_]), dtype=float)) for k_, v_ in cvars.items()} if test_set is not None else None
        rec = c04b.BoundsRecorder(system)
        try:
            with rec:
                system.fit(max_iter=10 ** 3, num_refine=30, max_tol=-1.0, update_bounds=ub, estimate_bounds=eb, test_set=test_set)
            c04b.add_case(ctx, case, system, rec, guesses, kinds, est_obs if eb else None, ub)
        except Exception as e:
            # with minmax and moving bounds the re-interpreted data (finding F6) can also drive a coupling domain to (-inf, nan)
            ctx.violate('C04:chain-not-exact:minmax' if (norm == 'minmax' and (ub or eb)) else 'C04:training-raises', f'{type(e).__name__}: {e}', case); continue
        stopped = False
        for c in system.components:
            if not c.has_surrogate:
                continue
            box = int(np.prod([m + 1 for m in c.max_beta]))
            if len(c.active_set) != box:
                # recorded finding F8 (property C08): when the current surrogate is identically zero every relative error indicator is NaN, no
                # candidate is chosen and fit() stops although candidates remain; training can then not be driven to exhaustion
                rs0 = np.random.RandomState(7)
                y0 = system.predict({f'x{k}': L + rs0.rand(16) for k in range(depth)}, normalized_inputs=False, index_set='train')
                zero = all(np.all(np.asarray(v) == 0.0) for v in y0.values())
                ctx.violate('C04:training-stops-on-identically-zero-surrogate' if zero else 'C04:not-exhausted',
                            f'component {c.name}: {len(c.active_set)}/{box} indices active when fit() stopped' +
                            (' (the surrogate is identically zero, every error indicator is NaN)' if zero else ''), case)
                stopped = True; break
        if stopped:
            continue
        rs = np.random.RandomState(1000 + n)
        NS = 40 if far else 5
        xs = {f'x{k}': L + rs.rand(NS) for k in range(depth)}
        xn = {k: np.asarray(system.inputs()[k].normalize(v), dtype=float) for k, v in xs.items()}
        try:
            y = system.predict(xn)
            y_raw_in = system.predict(xs, normalized_inputs=False)       # the same points handed over in physical units
        except Exception as e:
            ctx.violate('C04:predict-raises', f'{type(e).__name__}: {e}', case); continue
        for k_ in y:
            if k_ in y_raw_in and not systems.floats_close(y[k_], y_raw_in[k_], rtol=1e-9, atol=1e-9):
                ctx.violate('C04:raw-vs-normalised-inputs', f'output {k_}: {np.ravel(y[k_]).tolist()} from normalised inputs, {np.ravel(y_raw_in[k_]).tolist()} from the same inputs in '
                            f'physical units (normalized_inputs=False)', case); break
        # functional correspondence: Model/Sys.v eval with EXACT surrogates (Model/SysRun.v: norm_out o model o denorm_in on normalised
        # values) on the same normalised inputs - the executable form of C04_chain_exact; minmax chains are the recorded finding F6
        if norm != 'minmax':
            import c16
            names = [f'x{k}' for k in range(depth)] + [f'u{k}' for k in range(depth)]
            num = {v: i for i, v in enumerate(names)}
            vobj = {str(v): v for v in system.variables()}
            tab = []
            for v in names:
                ch, hy = c16.model_chain(vobj[v]) if vobj[v].norm else ([], [[], []])
                tab.append([ch, hy])
            mcomps = []
            for k in range(depth):
                sp = specs[k]; a, b = Fraction(sp['a']), Fraction(sp['b'])
                # a (x - L)^2 + b (x - L) + c u + d/4 u^2, expanded in (x, u)
                nin = 2 if k else 1
                ex = lambda i, j_: [i, j_][:nin]
                poly = [[q(a), ex(2, 0)], [q(b - 2 * a * L), ex(1, 0)], [q(a * L * L - b * L), ex(0, 0)]]
                if k:
                    poly += [[q(Fraction(sp['c'])), ex(0, 1)], [q(Fraction(sp['d'], 4)), ex(0, 2)]]
                mcomps.append([k, [num[f'x{k}']] + ([num[f'u{k - 1}']] if k else []), [num[f'u{k}']], [poly], 1 if (analytic and k == 0) else 0])
            for j in range(min(NS, 5)):
                env0 = [[num[f'x{k}'], 1, q(Fraction(float(xn[f'x{k}'][j])))] for k in range(depth)]
                ask = [num[f'u{k}'] for k in range(depth)]
                ctx.flines.append('sys_eval ' + enc([tab, mcomps, list(range(depth)), env0, ask, ask]))
                ctx.fmeta.append(({**case, 'sample': j}, [float(np.ravel(system.outputs()[f'u{k}'].denormalize(np.asarray(y[f'u{k}'])))[j]) for k in range(depth)]))
        for j in range(NS):
            u = Fraction(0)
            for k in range(depth):
                u = f(k, Fraction(float(xs[f'x{k}'][j])) - L, u)
                got = float(np.ravel(system.outputs()[f'u{k}'].denormalize(np.asarray(y[f'u{k}'])))[j])
                scale = abs(u) + 10
                if not (got == got and abs(Fraction(got) - u) <= Fraction(1, 10 ** 7) * scale):
                    # recorded finding F6: minmax re-interprets stored data when the bounds MOVE; with fixed bounds it is exact
                    sig = 'C04:chain-not-exact:minmax' if (norm == 'minmax' and (ub or eb)) else 'C04:chain-not-exact'
                    ctx.violate(sig, f'output u{k} at sample {j}: surrogate {got}, exact composition {float(u)} (initial coupling-domain guess "{guess}", '
                                f'norm {norm}, update_bounds={ub}, estimate_bounds={eb})', case)
                    break
            else:
                continue
            break


def run_centred_targets(ctx: Ctx):
    """x -> y1 -> y2 trained for the final output only, the guess for y1's domain centred on f1(centre of x): at the start every
    candidate of every component changes the target by exactly zero (the first component's candidates feed a still-constant second
    one, whose own candidates are evaluated on its centre node); training to exhaustion must still go on and end exact"""
    from amisc import Component, System, Variable
    rng = ctx.rng
    for n in range(ctx.pick(3, 12)):
        a, b = rng.randint(1, 3), rng.randint(1, 2)
        c, d = rng.randint(1, 3), rng.randint(1, 2)
        half = [0.5, 2.5, 5.0][n % 3]

        def f1(inputs, _a=a, _b=b):
            x = np.asarray(inputs['x'], dtype=float)
            return {'y1': _a * x + _b * 0.5 * x ** 3}

        def f2(inputs, _c=c, _d=d):
            y = np.asarray(inputs['y1'], dtype=float)
            return {'y2': 1 + _d * 0.0625 * y ** 4 - _c * y}
        mid = a * 1.0 + b * 0.5
        system = System(Component(f1, [Variable('x', distribution='U(-1, 3)')], [Variable('y1', domain=(mid - half, mid + half))], name='c1', vectorized=True, data_fidelity=(2,)),
                        Component(f2, [Variable('y1', domain=(mid - half, mid + half))], [Variable('y2')], name='c2', vectorized=True, data_fidelity=(2,)), name='c04t')
        case = {'centred_chain': n, 'coeffs': [a, b, c, d], 'guess_half_width': half, 'targets': ['y2']}
        ctx.case(case, nontrivial=True, kind='chain:centred-guess:last-output-only')
        np.random.seed(ctx.seed * 31 + n)
        try:
            system.fit(targets=['y2'], max_iter=200, max_tol=-1.0)
        except Exception as e:
            ctx.violate('C04:training-raises', f'{type(e).__name__}: {e}', case); continue
        left = {cc.name: len(cc.candidate_set) for cc in system.components}
        if any(left.values()):
            # recorded finding F8: when the current surrogate of the target is identically zero every relative indicator is NaN and fit() stops
            y0 = system.predict({'x': np.linspace(-1, 3, 9)}, normalized_inputs=False, index_set='train', targets=['y2'])
            zero = bool(np.all(np.asarray(y0['y2']) == 0.0))
            ctx.violate('C04:training-stops-on-identically-zero-surrogate' if zero else 'C04:not-exhausted',
                        f'fit(targets=["y2"]) stopped after {len(system.train_history)} steps with candidates left: {left}' +
                        (' (the surrogate of y2 is identically zero, every error indicator is NaN)' if zero else ''), case); continue
        xs = np.linspace(-1, 3, 41)
        y = system.predict({'x': xs}, normalized_inputs=False)
        for j, xv in enumerate(xs):
            X = Fraction(float(xv)); y1 = a * X + Fraction(b, 2) * X ** 3; y2 = 1 + Fraction(d, 16) * y1 ** 4 - c * y1
            for name, ref in (('y1', y1), ('y2', y2)):
                got = float(np.ravel(y[name])[j])
                if not (got == got and abs(Fraction(got) - ref) <= Fraction(1, 10 ** 7) * (abs(ref) + 10)):
                    ctx.violate('C04:chain-not-exact', f'{name} at x={float(xv)}: surrogate {got}, exact composition {float(ref)} (trained for y2 only, centred guess)', {**case, 'x': float(xv)})
                    break


def run_nan_target(ctx: Ctx):
    """an upstream output whose first surrogate is identically zero (an odd polynomial on a symmetric domain: zero at the centre node), so that
    its relative change is 0/0 for every candidate, next to a downstream output that is not: the indicator is the largest over the outputs that
    have one, training goes on to exhaustion and ends exact"""
    from amisc import Component, System, Variable
    rng = ctx.rng
    for n in range(ctx.pick(2, 8)):
        a, b = rng.randint(1, 3), rng.randint(1, 2)
        c, d = rng.randint(1, 2), rng.randint(1, 3)

        def f1(inputs, _a=a, _b=b):
            x = np.asarray(inputs['x'], dtype=float)
            return {'u': _a * x ** 3 - _b * 0.5 * x}

        def f2(inputs, _c=c, _d=d):
            x = np.asarray(inputs['x'], dtype=float); u = np.asarray(inputs['u'], dtype=float)
            return {'w': _c * u ** 2 + x * u + _d}
        listing = n % 2
        xv = Variable('x', distribution='U(-1, 1)'); uv = Variable('u', domain=(-2.0, 2.0))
        comps = [Component(f1, [xv], [uv], name='c1', vectorized=True, data_fidelity=(2,)),
                 Component(f2, [xv, uv], [Variable('w')], name='c2', vectorized=True, data_fidelity=(1, 1))]
        system = System(*(comps if listing == 0 else comps[::-1]), name='c04n')
        case = {'zero_centred_upstream_output': n, 'coeffs': [a, b, c, d], 'listing': ['c1,c2', 'c2,c1'][listing]}
        ctx.case(case, nontrivial=True, kind='chain:upstream-output-zero-at-first')
        np.random.seed(ctx.seed * 37 + n)
        try:
            system.fit(max_iter=200, max_tol=-1.0)
        except Exception as e:
            ctx.violate('C04:training-raises', f'{type(e).__name__}: {e}', case); continue
        left = {cc.name: len(cc.candidate_set) for cc in system.components}
        if any(left.values()):
            ctx.violate('C04:not-exhausted', f'fit() stopped after {len(system.train_history)} steps with candidates left: {left} (the upstream output starts with an identically '
                        f'zero surrogate, the downstream one does not)', case); continue
        xs = np.linspace(-1, 1, 21)
        y = system.predict({'x': xs}, normalized_inputs=False)
        for j, xq in enumerate(xs):
            X = Fraction(float(xq)); U = a * X ** 3 - Fraction(b, 2) * X; W = c * U ** 2 + X * U + d
            for name, ref in (('u', U), ('w', W)):
                got = float(np.ravel(y[name])[j])
                if not (got == got and abs(Fraction(got) - ref) <= Fraction(1, 10 ** 7) * (abs(ref) + 10)):
                    ctx.violate('C04:chain-not-exact', f'{name} at x={float(xq)}: surrogate {got}, exact composition {float(ref)}', {**case, 'x': float(xq)}); break


def run_loops(ctx: Ctx):
    rng = ctx.rng
    for n in range(ctx.pick(6, 60)):
        size = rng.randint(2, 3)
        strong = n % 3 == 2      # a third of the loops are NOT contractions (two members, coupling gains up to 1.5, product up to 2.25 in
        if strong:               # magnitude): the accelerated iteration still solves these (300 of 300 on the unchanged tree, error 1e-12)
            size = 2
        # every third loop: one member also returns a coupling variable that does not depend on the loop state (settled after one sweep)
        side = None
        if n % 3 == 1:
            # read by the first listed member in one half of these loops and by the last listed one in the other (the variable then is the
            # last / among the first of the loop's coupling variables, in whichever order the code walks them)
            c_ = 0 if n % 6 == 1 else size - 1
            p_ = (c_ + 1) % size; side = (p_, c_, Fraction(rng.choice([-1, 1, 2]), 4))
        system, spec = systems.random_loop_system(rng, size=size, name=f'c04l{n}', extra=False, downstream=True, gain_scale=(6 if strong else 1), side=side)
        guess = rng.choice(['declared', 'narrow', 'offset'])
        for i in range(size):
            v = system.outputs()[f'u{i}']
            if guess == 'narrow':
                v.domain = (-0.2, 0.2)
            elif guess == 'offset':
                v.domain = (3.0, 4.0)
        np.random.seed(ctx.seed * 29 + n)
        ub = rng.random() < 0.8
        case = {'loop': n, 'size': size, 'A': [[str(t) for t in r] for r in spec['A']], 'initial_guess': guess, 'update_bounds': ub, 'non_contractive': strong, 'state_independent_coupling_variable': [str(t) for t in side] if side else None}
        ctx.case(case, nontrivial=True, kind=f'loop:{guess}')
        try:
            system.fit(max_iter=10 ** 3, num_refine=30, max_tol=-1.0, update_bounds=ub)
            rs = np.random.RandomState(n)
            xs = {f'x{i}': rs.rand(4) for i in range(size)}
            y = system.predict(xs)
        except Exception as e:
            ctx.violate('C04:loop-raises', f'{type(e).__name__}: {e}', case); continue
        for j in range(4):
            ustar = systems.solve_affine_loop(spec, {f'x{i}': float(xs[f'x{i}'][j]) for i in range(size)})
            for i in range(size):
                got = float(np.ravel(y[f'u{i}'])[j])
                if not (got == got and abs(Fraction(got) - ustar[i]) <= Fraction(1, 10 ** 7) * (abs(ustar[i]) + 10)):
                    ctx.violate('C04:loop-not-exact', f'u{i} at sample {j}: surrogate {got}, exact linear solve {float(ustar[i])} (initial guess "{guess}", '
                                f'update_bounds={ub})', case); break
            else:
                # the component downstream of the loop (z = 2 u0 + 1)
                if 'z' in y:
                    gz = float(np.ravel(y['z'])[j]); wz = 2 * ustar[0] + 1
                    if not (gz == gz and abs(Fraction(gz) - wz) <= Fraction(1, 10 ** 7) * (abs(wz) + 10)):
                        ctx.violate('C04:loop-not-exact', f'downstream output z at sample {j}: surrogate {gz}, exact {float(wz)} (initial guess "{guess}", '
                                    f'update_bounds={ub})', case); break
                continue
            break


def run_weights(ctx: Ctx):
    """Lagrange.refine under a domain that changes between refinements: the weights must stay consistent (correspondence with refine1)"""
    from amisc.interpolator import Lagrange
    rng = ctx.rng
    lines, meta = [], []
    for n in range(ctx.pick(40, 400)):
        interp = Lagrange()
        pts = []
        while len(pts) < 5:
            p = rng.randrange(0, 65) / 64
            if p not in pts:
                pts.append(p)
        n0 = rng.randint(1, 3); n1 = rng.randint(n0, 5)
        d0 = (0.0, 1.0); d1 = rng.choice([(0.0, 1.0), (-1.0, 3.0), (0.25, 0.75), (-4.0, 4.0)])
        ys0 = {'y': np.array([float(rng.randint(-4, 4)) for _ in range(n0)])}
        ys1 = {'y': np.array([float(rng.randint(-4, 4)) for _ in range(n1)])}
        st0 = interp.refine((), ({'x': np.array(pts[:n0])}, ys0), None, {'x': d0})
        st1 = interp.refine((), ({'x': np.array(pts[:n1])}, ys1), st0, {'x': d1})
        case = {'weights_case': n, 'points': pts[:n1], 'n0': n0, 'domain0': d0, 'domain1': d1}
        ctx.case(case, nontrivial=n1 > n0 and d1 != d0, kind='weights')
        C0 = Fraction(d0[1] - d0[0]) / 4; C1 = Fraction(d1[1] - d1[0]) / 4
        lines.append('lagr_refine1 ' + enc([q(C1), [[q(p) for p in np.asarray(st0.x_grids['x']).tolist()], [q(w) for w in np.asarray(st0.weights['x']).tolist()]],
                                             [q(p) for p in pts[:n1]]]))
        meta.append((case, st1, ys1))
        # oracle: the interpolant of the refined state reproduces its data and is the interpolation polynomial elsewhere
        import lagr
        gn = [[Fraction(p) for p in np.asarray(st1.x_grids['x']).tolist()]]
        xq = 0.3711
        got = float(interp.predict({'x': np.array([xq])}, st1, ({'x': np.array(pts[:n1])}, ys1))['y'][0])
        ref, rabs = lagr.tensor_lagrange(gn, [Fraction(v) for v in ys1['y'].tolist()], [Fraction(xq)])
        if not lagr.within(got, ref, rabs + 1):
            ctx.violate('C04:weights-inconsistent-after-domain-change', f'grid refined from {n0} to {n1} nodes while the domain changed from {d0} to {d1}: '
                        f'prediction {got}, interpolation polynomial {float(ref)}', case)
    for (case, st1, ys1), mo in zip(meta, run_model(lines, shards=8) if lines else []):
        if isinstance(mo, ModelError):
            ctx.disagree('C04:model-error', case, str(mo), None); continue
        mw = [unq(t) for t in mo[1]]
        iw = np.asarray(st1.weights['x']).tolist()
        if len(mw) != len(iw) or any(abs(Fraction(a) - b) > Fraction(1, 10 ** 9) * (abs(b) + 1) for a, b in zip(iw, mw)):
            ctx.disagree('C04:Lagrange.refine weights', case, [float(t) for t in mw], iw)


def run(ctx: Ctx):
    import_amisc()
    ctx.rule = ('feed-forward chains of depth 1-4 of quadratic polynomial components (each resolvable by its declared fidelity) with deliberately '
                'wrong initial coupling-domain guesses (exact / too narrow / too wide / offset / unit), normalisations none / linear / zscore / minmax, '
                'update_bounds and estimate_bounds on/off, trained to exhaustion and compared with the exact composition (Fractions); affine feedback '
                'loops of 2-3 members with narrow / offset guesses versus the exact linear solve; Lagrange.refine with a domain that changes between two '
                'refinements versus Model/Lagr.v refine1 and the interpolation polynomial; non-trivial = depth >= 2 / a grid that grows while the domain changes')
    ctx.flines, ctx.fmeta = [], []
    run_weights(ctx)
    ctx.flines_b, ctx.fmeta_b = [], []
    run_chains(ctx)
    run_loops(ctx)
    run_centred_targets(ctx)
    run_nan_target(ctx)
    import c04b
    c04b.compare(ctx, run_model)
    for (case, yimpl), mo in zip(ctx.fmeta, run_model(ctx.flines, shards=8) if ctx.flines else []):
        ctx.count('chain_evaluations_compared')
        if isinstance(mo, ModelError):
            ctx.disagree('C04:model-error', case, str(mo), None); continue
        if not mo or any(not v for v in mo[0]):
            ctx.disagree('C04:System.predict (exact surrogates)', case, 'model evaluation stuck', yimpl); continue
        mv = [unq(v[0]) for v in mo[0]]
        if any(not (a == a and abs(Fraction(a) - m) <= Fraction(1, 10 ** 7) * (abs(m) + 10)) for a, m in zip(yimpl, mv)):
            ctx.disagree('C04:System.predict (exact surrogates)', case, [float(m) for m in mv], yimpl)
