"""Child process of the C20 check: build a system deterministically from argv[1] (system id), train it with a fixed numpy seed,
print a JSON digest.  Run by harness/c20.py under different PYTHONHASHSEED values."""
import json
import random
import sys

import numpy as np

sys.path.insert(0, __import__('os').path.dirname(__file__))
from common import import_amisc  # noqa: E402
import_amisc()
import systems  # noqa: E402

sid = int(sys.argv[1]); npseed = int(sys.argv[2]); niter = int(sys.argv[3])
rng = random.Random(sid)          # construction code is identical in every process
executor = None
if sid % 8 == 6:
    system, _ = systems.two_field_input_system(rng, name=f'h{sid}')
elif sid % 4 == 2:
    system, _ = systems.field_input_system(rng, name=f'h{sid}')
elif sid % 8 == 3:
    system, _ = systems.branching_system(rng, name=f'h{sid}')
elif sid % 2 == 1:
    system, _ = systems.random_loop_system(rng, size=2 + (sid // 2) % 2, name=f'h{sid}', extra=True)
else:
    system, _ = systems.random_chain_system(rng, ncomp=2 + sid % 3, with_alpha=False, name=f'h{sid}')
if sid % 8 == 5:
    # a two-member feedback loop inside a larger system (the loop holds fewer than half of the components): the members are iterated, and
    # their coupling variables stacked, in listing order whatever the size of the system around them
    from amisc import Component, Variable
    system, _ = systems.random_loop_system(random.Random(sid), size=2, name=f'h{sid}', extra=True)
    t1 = Variable('t1', domain=(-200.0, 200.0)); t2 = Variable('t2', domain=(-500.0, 500.0))

    def tail1(inputs):
        return {'t1': 2.0 * np.asarray(inputs['z'], dtype=float) - 1.0}

    def tail2(inputs):
        return {'t2': 0.5 * np.asarray(inputs['t1'], dtype=float) + 3.0}
    system.insert_components([Component(tail1, [system.outputs()['z']], [t1], name='tail1', vectorized=True, data_fidelity=(1,)),
                              Component(tail2, [t1], [t2], name='tail2', vectorized=True, data_fidelity=(1,))])
anonymous = sid % 8 == 7
if anonymous:
    # exogenous inputs WITHOUT names: the library gives them generated names that differ from process to process; nothing seeded may follow them
    from amisc import Component, System, Variable
    va, vb, vc = Variable(distribution='U(0, 1)'), Variable(distribution='U(-1, 1)'), Variable(distribution='U(0, 2)')
    y1 = Variable('y1', domain=(-5.0, 5.0)); y2 = Variable('y2', domain=(-20.0, 20.0))
    c_ = [rng.randint(1, 3) for _ in range(4)]

    def f1(a, b, _c=c_):
        return {'y1': _c[0] * np.asarray(a, dtype=float) ** 2 + _c[1] * np.asarray(b, dtype=float)}

    def f2(y, c, _c=c_):
        return {'y2': _c[2] * np.asarray(y, dtype=float) + _c[3] * np.asarray(c, dtype=float) ** 2}
    system = System(Component(f1, [va, vb], [y1], name='a1', vectorized=True, data_fidelity=(2, 1), call_unpacked=True, ret_unpacked=False),
                    Component(f2, [y1, vc], [y2], name='a2', vectorized=True, data_fidelity=(1, 2), call_unpacked=True, ret_unpacked=False), name=f'h{sid}')
if sid % 8 == 0 and len(system.components) >= 3:
    # the same system assembled in two calls: the components inserted later keep the order in which they were given
    from amisc import System
    comps = list(system.components)
    system = System(comps[0], name=f'h{sid}')
    system.insert_components(comps[1:])
np.random.seed(npseed)
xs = system.sample_inputs(5)
if sid % 8 == 3:
    # sibling branches: training for the outputs of one branch only (the other branch's coupling domain is updated on the way or not,
    # depending on whether it is evaluated before the early exit), then for the other branch with fixed bounds
    system.fit(targets=['yb'], max_iter=niter + 2, num_refine=20, max_tol=-1.0)
    system.fit(targets=['yf'], max_iter=3, num_refine=20, max_tol=-1.0, update_bounds=False)
elif sid % 8 == 4:      # candidate evaluations through a real thread pool: the result may not depend on how the futures happen to be ordered
    from concurrent.futures import ThreadPoolExecutor
    with ThreadPoolExecutor(max_workers=3) as executor:
        system.fit(max_iter=niter, num_refine=20, max_tol=-1.0, executor=executor)
else:
    system.fit(max_iter=niter, num_refine=20, max_tol=-1.0)
xt = system.sample_inputs(4)
pred = system.predict(xt)
out = {
    'component_order': [c.name for c in system.components],
    'components': [[[str(v) for v in c.inputs], [str(v) for v in c.outputs]] for c in system.components],
    'outputs_order': [str(v) for v in system.outputs()],
    'inputs_order': [str(v) for v in system.inputs()],
    'coupling_order': [str(v) for v in system.coupling_variables()],
    'sample_keys': list(xs.keys()),
    'samples': {k: np.asarray(v).tolist() for k, v in xs.items()},
    'history': [(h['component'], h['alpha'], h['beta'], h['num_evals'], repr(h['added_error'])) for h in systems.history_plain(system)],
    'state_digest': systems.digest(systems.system_state(system)),
    'prediction': {k: [repr(float(t)) for t in np.ravel(v)] for k, v in sorted(pred.items())},
}
if anonymous:       # generated names are replaced by their position in the listing; the state digest (which holds names) is left out
    pos = {str(v): f'in{i}' for i, v in enumerate(system.inputs())}
    ren = lambda n_: pos.get(str(n_), str(n_))
    out['components'] = [[[ren(v) for v in ins], outs] for ins, outs in out['components']]
    out['inputs_order'] = [ren(v) for v in out['inputs_order']]
    out['sample_keys'] = [ren(v) for v in out['sample_keys']]
    out['samples'] = {ren(k): v for k, v in out['samples'].items()}
    out['state_digest'] = 'not compared: holds generated names'
print('C20JSON ' + json.dumps(out, default=str))
