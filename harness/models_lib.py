"""Module-level model functions (so that saved systems can be loaded again: amisc serialises a model by module + name).
They are parameterised through model kwargs that amisc stores with the component."""
import numpy as np


def poly_model(inputs, model_fidelity=None, in_names=None, terms=None, alpha_gain=0.0, cost=None):
    """out = sum_t coef * prod_k x_k^e_k (+ alpha_gain * sum(alpha + 1)); vectorised over the leading axis.
    terms: {out: [[coef, [e_0, e_1, ...]], ...]}"""
    xs = [np.asarray(inputs[n], dtype=float) for n in in_names]
    ret = {}
    for out, tt in terms.items():
        y = 0.0 * xs[0]
        for coef, exps in tt:
            t = float(coef) + 0.0 * xs[0]
            for x, e in zip(xs, exps):
                if e:
                    t = t * x ** int(e)
            y = y + t
        if model_fidelity is not None and alpha_gain:
            mf = np.atleast_2d(np.asarray(model_fidelity, dtype=float))
            y = y + alpha_gain * np.sum(mf + 1.0, axis=-1).reshape(np.shape(y)) if mf.shape[0] == np.size(y) else y + alpha_gain * float(np.sum(mf[0] + 1.0))
        ret[out] = y
    if cost is not None:
        ret['model_cost'] = np.full(np.shape(np.atleast_1d(xs[0])), float(cost))
    return ret


SERIAL_CALLS = {'n': 0, 'interrupt_at': None, 'exc': None}     # harness switch: interrupt the n-th evaluation from inside the model


def poly_model_serial(inputs, model_fidelity=None, in_names=None, terms=None, alpha_gain=0.0, cost=None):
    """the same function for one sample at a time (non-vectorised components)"""
    SERIAL_CALLS['n'] += 1
    if SERIAL_CALLS['interrupt_at'] is not None and SERIAL_CALLS['n'] == SERIAL_CALLS['interrupt_at']:
        raise SERIAL_CALLS['exc'](f"model evaluation #{SERIAL_CALLS['n']}")
    xs = [float(inputs[n]) for n in in_names]
    ret = {}
    for out, tt in terms.items():
        y = 0.0
        for coef, exps in tt:
            t = float(coef)
            for x, e in zip(xs, exps):
                t *= x ** int(e)
            y += t
        if model_fidelity is not None and alpha_gain:
            y += alpha_gain * float(np.sum(np.asarray(model_fidelity, dtype=float) + 1.0))
        ret[out] = y
    if cost is not None:
        ret['model_cost'] = float(cost)
    return ret


def field_amp_model(inputs, p_coords=None):
    """scalar input d and field input p -> scalar amp (module-level twin of systems.field_input_system's model)"""
    dd = np.atleast_1d(np.asarray(inputs['d'], dtype=float))
    pf = np.atleast_1d(np.asarray(inputs['p'], dtype=float))
    return {'amp': dd * np.mean(pf, axis=-1) + 0.5 * dd ** 2}
