#!/bin/bash
# seed_eval.sh <worktree> <k> <seed-id> <check-ids...>
# Confirms a sub-agent's mutant (demo passes clean / fails patched / suite unchanged) in its scratch worktree, stores it under
# /verif/seeded/<seed-id>/, then applies it to /repo, runs the given checks, and undoes it.
set -u
WT=$1; K=$2; SID=$3; shift 3
M=$WT/mutants/$K
cd "$WT" || exit 2
git checkout -q -- src 2>/dev/null
echo "== clean demo"; PYTHONPATH=$WT/src timeout 600 /venv/bin/python $M/demo.py >/tmp/seed_$$_clean.out 2>&1; c0=$?; echo "exit $c0"
git apply $M/patch.diff || { echo "patch does not apply in worktree"; exit 2; }
echo "== patched demo"; PYTHONPATH=$WT/src timeout 600 /venv/bin/python $M/demo.py >/tmp/seed_$$_pat.out 2>&1; c1=$?; echo "exit $c1"; tail -3 /tmp/seed_$$_pat.out
echo "== suite (patched)"; PYTHONPATH=$WT/src timeout 1500 /venv/bin/python -m pytest -q -p no:cacheprovider --timeout=900 2>&1 | tail -2 | tee /tmp/seed_$$_suite.out
git checkout -q -- src
suite=$(tail -1 /tmp/seed_$$_suite.out)
if [ $c0 -ne 0 ] || [ $c1 -eq 0 ]; then echo "MUTANT NOT CONFIRMED (clean=$c0 patched=$c1)"; exit 3; fi
case "$suite" in *"1 failed, 57 passed"*) ;; *) echo "MUTANT NOT CONFIRMED: suite changed: $suite"; exit 3;; esac
D=/verif/seeded/$SID; mkdir -p $D
cp $M/patch.diff $D/patch.diff; cp $M/demo.py $D/demo.py
# --- run our checks against it: the patch is applied in the scratch worktree and the checks are pointed at it (AMISC_REPO),
# so /repo itself is never modified
cd "$WT" && git apply $D/patch.diff || { echo "patch does not apply"; exit 2; }
res=""
for pid in "$@"; do
  out=$(cd /verif && AMISC_REPO=$WT ./check $pid --tier quick 2>&1 | grep -E "VIOLATION|exit [01]$" | head -3)
  echo "-- $pid: $out"
  if echo "$out" | grep -q VIOLATION; then res="$res $pid:caught"; else res="$res $pid:missed"; fi
done
cd "$WT" && git checkout -q -- src
/venv/bin/python - "$M/meta.json" "$D/meta.json" "$suite" "$res" "$*" <<'PY'
import json,sys
src,dst,suite,res,checks=sys.argv[1:6]
try: m=json.load(open(src))
except Exception: m={}
m['confirmed']={'clean_demo_exit':0,'patched_demo_exit':1,'suite_with_patch':suite.strip(),
                'how':'harness/seed_eval.sh: demo on clean and patched scratch worktree, full pytest suite with the patch'}
m['checks_run']=checks.split(); m['result']=res.split()
json.dump(m,open(dst,'w'),indent=1)
print('stored',dst,res)
PY
