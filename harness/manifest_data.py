"""Per-property manifest texts (what is claimed, at which level, with which trusted base)."""
COMMON_NOTE = ('Trusted: Coq 8.16.1 kernel; no axioms declared by the development (Print Assumptions parsed on every run, '
               'allow-list in harness/common.py); the models are hand-written and tied to /repo/src by a correspondence check '
               '(extraction with ExtrOcamlBasic only + ocaml/driver.ml + harness generators/canonicalisers), whose strength is '
               'bounded by the generators; everything in /repo is modelled, not verified.')
CHECKS = {
 'C01': {
  'text': 'Theorems (Coq, unbounded: every box shape and every request history): after any accepted activation sequence the training-mode '
          'weight tree has exactly the active set as keys and the evaluation-mode tree exactly active+candidates, every weight equals '
          'the inclusion-exclusion sum over the 0/1 cube (Misc.IE), each tree sums to 1, weights depend only on the set (order '
          'independence), and the look-ahead weights used to score a candidate equal the weights its activation gives. The model Misc.v '
          'mirrors update_misc_coeff/activate_index statement by statement and is compared exactly (sets and both trees after every request, '
          'look-ahead trees) with the real Component on exhaustive small boxes and random histories; an independent oracle recomputes '
          'inclusion-exclusion on the implementation.',
  'design_ref': 'DESIGN.md section 5, C01',
  'note': COMMON_NOTE,
  'technique': 'Coq proof (invariant over request lists, inclusion-exclusion identity) + extracted-model differential correspondence',
 },
 'C18': {
  'text': 'Theorems (Coq, unbounded): the model of simulate_fit (shadow structures, fallback to the live active set while the shadow set '
          'is empty) replayed over the accepted requests yields exactly the per-iteration sets and both weight trees of the live run, its '
          'last state is the live state, one history entry per accepted activation, and every replayed state carries inclusion-exclusion '
          'weights. Correspondence: real fit() runs on random multi-component systems, live structures and predictions recorded after '
          'every iteration, compared with System.simulate_fit() yields, with predictions through the replayed structures and with the '
          'extracted model replay.',
  'design_ref': 'DESIGN.md section 5, C18',
  'note': COMMON_NOTE + ' C18: prediction equality is checked on the implementation (not proved) for systems without normalisation and without imputed data.',
  'technique': 'Coq proof (replay = run on accepted requests) + extracted-model differential correspondence + impl-vs-impl replay oracle',
 },
 'C02': {
  'text': 'Theorems (Coq, unbounded: every box shape, every admissible or inadmissible request history): the reachable-state invariant '
          '(NoDup, disjoint, within the box, active and active+candidate downward closed, candidates = admissible margin), rejection '
          'leaves the state unchanged, exhaustion iff the box is full, is_downward_closed decides closedness. The model Misc.v is tied to '
          'Component.activate_index/_neighbors/is_downward_closed by exact comparison of both sets after every request on exhaustive small '
          'boxes and random histories; an independent oracle recomputes margin and closedness on the implementation.',
  'design_ref': 'DESIGN.md section 5, C02',
  'note': COMMON_NOTE + ' C02: requests are assumed to have the dimension of the box (wf_reqs); a wrong-length all-zero request is outside the model.',
  'technique': 'Coq proof of a state-machine invariant by induction over request lists + extracted-model differential correspondence',
 },
}
NOT_APPLICABLE = {}
