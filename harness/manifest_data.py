"""Per-property manifest texts (what is claimed, at which level, with which trusted base)."""
COMMON_NOTE = ('Trusted: Coq 8.16.1 kernel; no axioms declared by the development (Print Assumptions parsed on every run, '
               'allow-list in harness/common.py); the models are hand-written and tied to /repo/src by a correspondence check '
               '(extraction with ExtrOcamlBasic only + ocaml/driver.ml + harness generators/canonicalisers), whose strength is '
               'bounded by the generators; everything in /repo is modelled, not verified.')
CHECKS = {
 'C02': {
  'text': 'Theorems (Coq, unbounded: every box shape, every admissible or inadmissible request history): the reachable-state invariant '
          '(NoDup, disjoint, within the box, active and active+candidate downward closed, candidates = admissible margin), rejection '
          'leaves the state unchanged, exhaustion iff the box is full, is_downward_closed decides closedness. The model Misc.v is tied to '
          'Component.activate_index/_neighbors/is_downward_closed by exact comparison of both sets after every request on exhaustive small '
          'boxes and random histories; an independent oracle recomputes margin and closedness on the implementation.',
  'design_ref': 'DESIGN.md section 5, C02',
  'note': COMMON_NOTE + ' C02: requests are assumed to have the dimension of the box (wf_reqs); a wrong-length all-zero request is outside the model.',
  'technique': 'Coq proof of a state-machine invariant by induction over request lists + extracted-model differential correspondence',
 },
}
NOT_APPLICABLE = {}
