"""Per-property manifest texts (what is claimed, at which level, with which trusted base)."""
COMMON_NOTE = ('Trusted: Coq 8.16.1 kernel; no axioms declared by the development (Print Assumptions parsed on every run, '
               'allow-list in harness/common.py); the models are hand-written and tied to /repo/src by a correspondence check '
               '(extraction with ExtrOcamlBasic only + ocaml/driver.ml + harness generators/canonicalisers), whose strength is '
               'bounded by the generators; everything in /repo is modelled, not verified.')
CHECKS = {}
NOT_APPLICABLE = {}
