"""C12 (Model/Search.v): amisc.utils.search_for_file against the extracted `search` on real directories: recorded names that are bare
file names (with / without suffix), absolute paths that exist or are gone (the save directory was moved), relative paths of several
parts; one or two caller-supplied directories and a working directory, each holding a file of that name or not."""
from __future__ import annotations

import os
import shutil
from pathlib import Path

from common import Ctx, WORK, ModelError, enc, run_model


def run_search(ctx: Ctx):
    from amisc.utils import search_for_file
    rng = ctx.rng
    root = WORK / f'c12s_{os.getpid()}'
    shutil.rmtree(root, ignore_errors=True); root.mkdir(parents=True)
    cwd0 = os.getcwd()
    lines, meta = [], []
    try:
        for n in range(ctx.pick(60, 600)):
            base = root / f'c{n}'
            ngiven = rng.randint(0, 2)
            given = [base / f'given{k}' for k in range(ngiven)]
            cwd = base / 'cwd'; old = base / 'old' / 'surrogates'
            for d in given + [cwd, old]:
                d.mkdir(parents=True)
            kind = rng.choice(['bare', 'bare', 'bare-nosuffix', 'abs-exists', 'abs-gone', 'abs-gone', 'rel-gone', 'rel-exists'])
            name = 'side_training_data.pkl' if kind != 'bare-nosuffix' else 'sidefile'
            holds = [rng.random() < 0.5 for _ in given]; cwd_holds = rng.random() < 0.5
            for d, h in zip(given + [cwd], holds + [cwd_holds]):
                if h:
                    (d / name).write_text(str(d))
            if kind in ('bare', 'bare-nosuffix'):
                recorded = name
            elif kind == 'abs-exists':
                (old / name).write_text('old'); recorded = str(old / name)
            elif kind == 'abs-gone':
                recorded = str(old / name)
            elif kind == 'rel-gone':
                recorded = str(Path('elsewhere') / 'surrogates' / name)
            else:
                (cwd / 'sub').mkdir(); (cwd / 'sub' / name).write_text('sub'); recorded = str(Path('sub') / name)
            os.chdir(cwd)
            try:
                p = Path(recorded)
                nparts, sfx, ex = len(p.parts), len(p.suffix) > 0, p.exists()
                got = search_for_file(recorded, search_paths=[str(d) for d in given])
            finally:
                os.chdir(cwd0)
            if str(got) == recorded:
                impl = [0]
            else:
                parent = Path(got).parent.resolve()
                ks = [k for k, d in enumerate(given) if d.resolve() == parent]
                impl = [1, ks[0]] if ks else ([2] if parent == cwd.resolve() else [3, str(got)])
            case = {'search': n, 'recorded': kind, 'given_directories_hold': holds, 'cwd_holds': cwd_holds}
            ctx.case(case, nontrivial=(nparts == 1 and sfx) or (nparts > 1 and not ex), kind=f'search:{kind}')
            lines.append('search_file ' + enc([nparts, int(sfx), int(ex), [int(h) for h in holds], int(cwd_holds)]))
            meta.append((case, impl))
            # property-level: a file beside the YAML file (a given directory) is preferred to a same-named file in the working directory
            if impl == [2] and any(holds):
                ctx.violate('C12:working-directory-preferred-to-save-directory', f'the file was taken from the working directory although a given directory holds it', case)
    finally:
        os.chdir(cwd0)
        shutil.rmtree(root, ignore_errors=True)
    for (case, impl), mo in zip(meta, run_model(lines) if lines else []):
        ctx.count('searches_compared')
        if isinstance(mo, ModelError):
            ctx.disagree('C12:model-error', case, str(mo), None); continue
        if list(mo) != impl:
            ctx.disagree('C12:search_for_file', case, mo, impl)
