"""./check Cxx [--tier quick|thorough] [--replay FILE]"""
import argparse
import importlib
import json
import os
import sys
import traceback

sys.path.insert(0, os.path.dirname(os.path.abspath(__file__)))
import common  # noqa: E402

# property id -> (module, extra trusted-base lines)
REGISTRY = {
    'C01': ('c01', []),
    'C02': ('c02', []),
    'C18': ('c18', []),
    'C10': ('c10', []),
    'C04': ('c04', ['convergence of the Anderson-accelerated iteration on affine loops is numerics outside the model (partial)', 'the coupling values a refinement step observes are recorded from the run; how the bounds follow them is modelled (Model/Bounds.v)']),
    'C13': ('c13', ['signals delivered inside C extensions or inside the final bookkeeping statements are not modelled (partial)']),
    'C14': ('c14', ['the imputed value (ridge regression) is an oracle of the model']),
    'C12': ('c12', ['PyYAML float round trip, pickle and base64 blobs are trusted codecs exercised by the save/move/load runs; the file search is modelled with the file system abstracted to booleans (Model/Search.v)']),
    'C19': ('c19', ['side effects through global state (matplotlib, logging handlers, the file system) are exercised, not modelled']),
    'C15': ('c15', ['real thread/process scheduling, pickling and races inside user models are not modelled (partial)']),
    'C16': ('c16', ['log/exp are parameters of the model; Log chains are checked by the round-trip oracle only', 'SVD projection matrices are oracles (orthonormality checked numerically)']),
    'C09': ('c09', ['Leja point placement (scipy DIRECT) and the model function are oracles of the model']),
    'C08': ('c08', ['the look-ahead predictions that feed the scan are recomputed from public calls; relative errors, their maximum and the cost division are modelled in squares (select_sq) and compared on those predictions']),
    'C07': ('c07', ['networkx condensation/topological_sort is not modelled: the plan it delivers is checked on every run by the extracted plan_ok (Model/Graph.v), proved sound and complete for the strongly connected components in Props/C07X.v']),
    'C06': ('c06', ['Anderson mixing (constrained_lls: batched QR/pinv) is an oracle of the model', 'tolerances of harness/c06.py']),
    'C20': ('c20', ['CPython hash randomisation as exercised by PYTHONHASHSEED in child processes']),
    'C11': ('c11', ['tolerances of harness/c11.py: 1e-8 * sum|data| / minsep^order (1e-4 inside a snapping band)']),
    'C17': ('c17', ['rounding allowances of harness/c17.py and harness/p_exact.py for twin and exact-polynomial comparisons']),
    'C03': ('c03', ['rounding allowance 2^-30 * 64 * (sum|coef*monomial| + 1) for the comparison with the exact polynomial value']),
    'C05': ('c05', ['rounding bound of DESIGN 3.3: |float - exact| <= 2^-30 * sum|terms| (harness/lagr.py)']),
}


# further Props files holding theorems of a property
EXTRA_PROPS = {'C11': ['C11H', 'C11HX'], 'C17': ['C17H'], 'C03': ['C03X'], 'C16': ['C16X'], 'C04': ['C04X', 'C04B', 'C04C'], 'C12': ['C12X'], 'C08': ['C08X'], 'C07': ['C07X', 'C07Y'], 'C05': ['C05X'], 'C09': ['C09X'], 'C06': ['C06X'], 'C13': ['C13X']}


def main():
    ap = argparse.ArgumentParser()
    ap.add_argument('pid')
    ap.add_argument('--tier', default=os.environ.get('VERIF_TIER', 'quick'), choices=['quick', 'thorough'])
    ap.add_argument('--replay', default=None)
    args = ap.parse_args()
    seed = int(os.environ.get('VERIF_SEED', '1'))
    pid = args.pid
    if pid not in REGISTRY:
        print(f'unknown or unclaimed property {pid}')
        return 2
    modname, tb = REGISTRY[pid]
    replay = None
    if args.replay:
        # a replay file names the seed and tier of the run that produced it (all random choices derive from them) and the failing
        # input or broken theorem/correspondence: the run is repeated and the same failure is looked for
        import json
        replay = json.load(open(args.replay))
        seed = int(replay.get('seed', seed)); args.tier = replay.get('tier', args.tier)
    ctx = common.Ctx(pid, args.tier, seed)
    obl = common.check_obligations_multi([pid] + EXTRA_PROPS.get(pid, []), None)
    if args.tier == 'thorough' and not obl['problems']:
        obl = common.coqchk([pid] + EXTRA_PROPS.get(pid, []), obl)
    try:
        mod = importlib.import_module(modname)
        mod.run(ctx)
    except Exception as e:  # a crashing harness must not look like a pass
        traceback.print_exc()
        ctx.disagree('harness-crash', {'exception': repr(e)}, None, traceback.format_exc()[-2000:])
    if replay is not None:
        def same(a, b):
            return json.dumps(a, sort_keys=True, default=str) == json.dumps(b, sort_keys=True, default=str)
        if replay.get('kind') == 'failing-input':
            hits = [v for v in ctx.violations if v['signature'] == replay.get('signature')]
            exact = [v for v in hits if same(v['case'], replay.get('case'))]
            print(f'REPLAY property={pid} signature={replay.get("signature")} reproduced={bool(exact)} same-signature-failures={len(hits)}')
            if exact:
                print('  ' + exact[0]['what'][:1500])
            return 1 if exact else 0
        names = {n for b in replay.get('broken', []) for n in b.get('names', [])}
        now = {d['correspondence'] for d in ctx.disagreements} | {str(p_)[:200] for p_ in obl['problems']}
        again = sorted(n for n in names if n in now)
        print(f'REPLAY property={pid} broken={sorted(names)} still-broken={again} obligations={obl["discharged"]}/{obl["obligations"]}')
        return 1 if (again or obl['problems']) else 0
    rc = common.finish(ctx, obl, tb)
    for p in obl['problems'][:5]:
        print('OBLIGATION-PROBLEM:', p[:2000])
    print(f'{pid} tier={args.tier} seed={seed} obligations={obl["discharged"]}/{obl["obligations"]} '
          f'cases={ctx.evaluations} distinct_nontrivial={len(ctx._distinct)} disagreements={len(ctx.disagreements)} '
          f'violations={len(ctx.violations)} wall={ctx.elapsed():.1f}s -> exit {rc}')
    return rc


if __name__ == '__main__':
    sys.exit(main())
