"""C13: interrupted training saves a consistent state that resumes to the same result."""
from __future__ import annotations

import os
import random
import shutil

import numpy as np

from common import Ctx, WORK, import_amisc
import systems
import c12
from p_misc import oracle_c01, oracle_c02, snapshot


class Crash(BaseException):
    """not an Exception: nothing in amisc or in a user model should swallow it"""


KINDS = ('call_model', 'grid_refine', 'grid_set', 'grid_impute', 'interp_refine')


class injector:
    """class-level wrappers that count calls and raise Crash at the target (kind, n) before the call executes"""
    def __init__(self, target=None):
        self.target = target
        self.count = {k: 0 for k in KINDS}
        self.fired = False

    def __enter__(self):
        from amisc.component import Component
        from amisc.training import SparseGrid
        from amisc.interpolator import Lagrange
        self.saved = [(Component, 'call_model', Component.call_model), (SparseGrid, 'refine', SparseGrid.refine),
                      (SparseGrid, 'set', SparseGrid.set), (SparseGrid, 'impute_missing_data', SparseGrid.impute_missing_data),
                      (Lagrange, 'refine', Lagrange.refine)]
        inj = self

        def wrap(kind, orig, only_training=False):
            def w(self_, *a, **k):
                if only_training and not isinstance(k.get('model_fidelity', None), list):
                    return orig(self_, *a, **k)       # count only the training calls of activate_index
                inj.count[kind] += 1
                if inj.target == (kind, inj.count[kind]) and not inj.fired:
                    inj.fired = True
                    raise Crash(f'{kind} #{inj.count[kind]}')
                return orig(self_, *a, **k)
            return w
        Component.call_model = wrap('call_model', Component.call_model, only_training=True)
        SparseGrid.refine = wrap('grid_refine', SparseGrid.refine)
        SparseGrid.set = wrap('grid_set', SparseGrid.set)
        SparseGrid.impute_missing_data = wrap('grid_impute', SparseGrid.impute_missing_data)
        Lagrange.refine = wrap('interp_refine', Lagrange.refine)
        return self

    def __exit__(self, *exc):
        for cls, name, orig in self.saved:
            setattr(cls, name, orig)
        return False


def data_truthful(system, spec):
    """every stored training value equals the model's output at the stored grid point and fidelity (normalised units)"""
    import models_lib
    bad = []
    for comp, s in zip(system.components, spec):
        if not comp.has_surrogate:
            continue
        td = comp.training_data
        names = s['inputs']
        for alpha, d in td.yi_map.items():
            for coord, yi in d.items():
                xn = [td.x_grids[v][coord[k]] for k, v in enumerate(names)]
                xr = {v: np.array([float(comp.inputs[v].denormalize(np.array([xn[k]]))[0])]) for k, v in enumerate(names)}
                out = models_lib.poly_model(xr, model_fidelity=[tuple(alpha)] if len(alpha) else None, in_names=names, terms=s['raw_terms'],
                                            alpha_gain=s['alpha_gain'])
                for o in s['outputs']:
                    want = float(comp.outputs[o].normalize(np.asarray(out[o]))[0])
                    if not abs(float(yi[o]) - want) <= 1e-9 * (1 + abs(want)):
                        bad.append((comp.name, tuple(alpha), coord, o, float(yi[o]), want))
    return bad


def run(ctx: Ctx):
    import_amisc()
    from amisc import System
    rng = ctx.rng
    tmp = WORK / f'c13_tmp_{os.getpid()}'
    shutil.rmtree(tmp, ignore_errors=True)
    tmp.mkdir(parents=True, exist_ok=True)
    cwd0 = os.getcwd()
    ctx.rule = ('for each system (1-3 polynomial components with module-level models, optional model fidelity, cost-reporting models): an '
                'uninterrupted seeded fit() is recorded; then EVERY call of Component.call_model (training calls), SparseGrid.refine / set / '
                'impute_missing_data and Lagrange.refine made by that run is taken as an interruption point (a BaseException raised at that call): '
                'the *_error.yml written on the way out is loaded, index-set/weight invariants (C01/C02 oracles) and truthfulness of every stored '
                'value are checked, training is resumed for the remaining iterations with the same per-iteration seeds and compared with the '
                'uninterrupted run (history choices, index sets, weights, stored data, predictions; cost accounts separately); non-trivial = an '
                'interruption after the first iteration')
    try:
        for n in range(ctx.pick(2, 12)):
            sys_seed = ctx.seed * 613 + n; np_seed = rng.randint(0, 10 ** 6); K = rng.randint(4, 5)
            kind_sys = 'costs' if n % 2 else 'plain'

            def fresh(root):
                r = random.Random(sys_seed)
                return systems.persist_chain_system(r, ncomp=r.randint(1, 2), name='cr', root_dir=root, with_alpha=True, costs=(kind_sys == 'costs'), grid_opts=True)
            # ---- uninterrupted reference, counting the calls
            ref_sys, spec = fresh(None)
            with injector(None) as inj0, c12.reseeding(np_seed):
                ref_sys.fit(max_iter=K, num_refine=10, max_tol=-1.0)
            totals = dict(inj0.count)
            ref = c12.full_state(ref_sys)
            np.random.seed(5); xq = ref_sys.sample_inputs(4)
            ref_pred = {m: {k: np.asarray(v).tolist() for k, v in ref_sys.predict(xq, index_set=m).items()} for m in ('train', 'test')}
            points = [(k, i) for k in KINDS for i in range(1, totals[k] + 1)]
            if ctx.quick and len(points) > 60:
                points = rng.sample(points, 60)
            for kind, i in points:
                root = tmp / f's{n}_{kind}_{i}'; root.mkdir()
                system, _ = fresh(root)
                case = {'system_seed': sys_seed, 'numpy_seed': np_seed, 'iterations': K, 'interrupt_at': [kind, i], 'calls_in_run': totals}
                crashed_level = None
                try:
                    with injector((kind, i)) as inj, c12.reseeding(np_seed):
                        try:
                            system.fit(max_iter=K, num_refine=10, max_tol=-1.0)
                        except Crash:
                            crashed_level = system.refine_level
                    if crashed_level is None:
                        ctx.count('interruption_not_reached'); continue
                    ctx.case(case, nontrivial=crashed_level >= 1, kind=kind)
                    err_file = system.root_dir / 'surrogates' / 'cr_error.yml'
                    if not err_file.exists():
                        ctx.violate('C13:no-error-file', f'no cr_error.yml was written when {kind} #{i} was interrupted', case); continue
                    os.chdir(tmp)
                    try:
                        loaded = System.load_from_file(err_file)
                    except Exception as e:
                        ctx.violate('C13:saved-state-does-not-load', f'{kind} #{i}: loading the file written on the way out raised {type(e).__name__}: {e}', case); continue
                    finally:
                        os.chdir(cwd0)
                    # invariants of the saved state
                    for comp in loaded.components:
                        if not comp.has_surrogate:
                            continue
                        snap = snapshot(comp)
                        mx = tuple(comp.model_fidelity) + tuple(comp.max_beta)
                        errs = oracle_c01(snap)
                        act, cand = set(snap['active']), set(snap['cand'])
                        from p_misc import is_dc, margin
                        if not is_dc(act) or act & cand or (act and cand != set(margin(act, mx))):
                            errs.append('index-set invariants broken')
                        if errs:
                            ctx.violate('C13:saved-state-inconsistent', f'{kind} #{i}: component {comp.name}: {errs[0]}', case)
                        # every index of the sets has an interpolator state and data
                        for a, b in comp.active_set.union(comp.candidate_set):
                            if comp.misc_states.get((a, b)) is None:
                                ctx.violate('C13:index-without-state', f'{kind} #{i}: index {(a, b)} of {comp.name} is in the saved sets but has no interpolator state', case)
                    bad = data_truthful(loaded, spec)
                    if bad:
                        ctx.violate('C13:saved-value-not-a-model-output', f'{kind} #{i}: stored {bad[0]}', case)
                    if len(loaded.train_history) != crashed_level:
                        ctx.violate('C13:history-length', f'{kind} #{i}: saved history has {len(loaded.train_history)} entries, {crashed_level} steps had completed', case)
                    # resume
                    loaded.root_dir = None
                    try:
                        with c12.reseeding(np_seed):
                            loaded.fit(max_iter=K - loaded.refine_level, num_refine=10, max_tol=-1.0)
                    except Exception as e:
                        ctx.violate('C13:resume-raises', f'{kind} #{i}: resuming training raised {type(e).__name__}: {e}', case); continue
                    st = c12.full_state(loaded)
                    diffs = c12.diff_states(ref, st)
                    cost_only = [d for d in diffs if d.endswith('.costs') or d.endswith('.model_costs')]
                    hist_same_choices = [(h['component'], h['alpha'], h['beta']) for h in st['history']] == [(h['component'], h['alpha'], h['beta']) for h in ref['history']]
                    other = [d for d in diffs if d not in cost_only and d != 'history']
                    if 'history' in diffs and hist_same_choices:
                        # the error indicator is a difference of nearly equal predictions: compare it to rounding, everything else exactly
                        hc = all(a['num_evals'] == b['num_evals'] and a['added_cost'] == b['added_cost'] for a, b in zip(st['history'], ref['history']))
                        he = all(systems.floats_close([a['added_error']], [b['added_error']], rtol=1e-9, atol=1e-13) for a, b in zip(st['history'], ref['history']))
                        if hc and he:
                            diffs = [d for d in diffs if d != 'history']
                        elif hc:
                            other.append('history.added_error')
                    store_phase = kind in ('grid_set', 'grid_impute', 'interp_refine')
                    if (not hist_same_choices or other) and store_phase and any(d.endswith('.costs') for d in diffs):
                        # recorded finding F5a and its consequence: indices whose data were stored before the interruption are charged fewer
                        # evaluations on resume; the refinement criterion divides by that cost, so later choices may follow the changed accounts.
                        # What the saved state must still satisfy (loads, invariants, truthful data, resumes, finite predictions) was checked above.
                        ctx.violate('C13:cost-accounting-differs-after-store-phase-interruption',
                                    f'{kind} #{i}: cost accounts differ after resuming ({[d for d in diffs if d.endswith(".costs")]}), and the refinement '
                                    f'choices that divide by them follow', case)
                        continue
                    if not hist_same_choices or other:
                        ctx.violate('C13:resumed-run-differs', f'{kind} #{i}: after resuming, {other or "refinement choices"} differ from the uninterrupted run', case)
                    elif cost_only or 'history' in diffs:
                        ctx.violate('C13:cost-accounting-differs-after-store-phase-interruption' if store_phase else 'C13:cost-accounting-differs',
                                    f'{kind} #{i}: same surrogate after resuming, but {cost_only + (["history (num_evals/added_cost)"] if "history" in diffs else [])} differ '
                                    f'from the uninterrupted run', case)
                    pred = {m: {k: np.asarray(v).tolist() for k, v in loaded.predict(xq, index_set=m).items()} for m in ('train', 'test')}
                    for m in pred:
                        for k in pred[m]:
                            if not systems.floats_close(pred[m][k], ref_pred[m][k], rtol=1e-10, atol=1e-12):
                                ctx.violate('C13:resumed-prediction-differs', f'{kind} #{i}: {m}-mode prediction of {k} differs from the uninterrupted run', case)
                finally:
                    shutil.rmtree(root, ignore_errors=True)
    finally:
        os.chdir(cwd0)
        shutil.rmtree(tmp, ignore_errors=True)
