"""C13: interrupted training saves a consistent state that resumes to the same result."""
from __future__ import annotations

import os
import random
import shutil
from pathlib import Path

import numpy as np

from common import Ctx, WORK, import_amisc, enc
import systems
import c12
from p_misc import oracle_c01, oracle_c02, snapshot


class Crash(BaseException):
    """not an Exception: nothing in amisc or in a user model should swallow it"""


KINDS = ('call_model', 'grid_refine', 'collocation', 'grid_set', 'grid_impute', 'interp_refine')


class injector:
    """class-level wrappers that count calls and raise Crash at the target (kind, n) before the call executes"""
    def __init__(self, target=None):
        self.target = target
        self.count = {k: 0 for k in KINDS}
        self.fired = False

    def __enter__(self):
        from amisc.component import Component
        from amisc.training import SparseGrid
        from amisc.interpolator import Lagrange
        self.current = None          # (component name, alpha, beta) of the activation in progress
        self.sets_done = 0           # SparseGrid.set calls completed inside it
        self.batch_order = []        # (alpha, beta) of the SparseGrid.refine calls made inside it, in order
        self.saved = [(Component, 'activate_index', Component.activate_index),
                      (Component, 'call_model', Component.call_model), (SparseGrid, 'refine', SparseGrid.refine),
                      (SparseGrid, 'set', SparseGrid.set), (SparseGrid, 'impute_missing_data', SparseGrid.impute_missing_data),
                      (Lagrange, 'refine', Lagrange.refine)]
        inj = self

        def wrap(kind, orig, only_training=False):
            def w(self_, *a, **k):
                if only_training and not isinstance(k.get('model_fidelity', None), list):
                    return orig(self_, *a, **k)       # count only the training calls of activate_index
                inj.count[kind] += 1
                if inj.target == (kind, inj.count[kind]) and not inj.fired:
                    inj.fired = True
                    raise Crash(f'{kind} #{inj.count[kind]}')
                return orig(self_, *a, **k)
            return w
        orig_act = Component.activate_index

        def act(self_, alpha, beta, *a, **k):
            inj.current = (self_.name, tuple(alpha), tuple(beta)); inj.sets_done = 0; inj.batch_order = []
            return orig_act(self_, alpha, beta, *a, **k)
        Component.activate_index = act
        Component.call_model = wrap('call_model', Component.call_model, only_training=True)
        wrapped_refine = wrap('grid_refine', SparseGrid.refine)

        def refine_recording(self_, alpha, beta, *a, **k):
            inj.batch_order.append((tuple(alpha), tuple(beta)))      # the order in which the indices of the batch are processed (a set in the code)
            return wrapped_refine(self_, alpha, beta, *a, **k)
        SparseGrid.refine = refine_recording
        wrapped_set = wrap('grid_set', SparseGrid.set)

        def set_counting(self_, *a, **k):
            r = wrapped_set(self_, *a, **k)
            inj.sets_done += 1
            return r
        SparseGrid.set = set_counting
        SparseGrid.impute_missing_data = wrap('grid_impute', SparseGrid.impute_missing_data)
        Lagrange.refine = wrap('interp_refine', Lagrange.refine)
        # inside SparseGrid.refine: before each 1-d collocation-point computation (the grids of some inputs may be extended already)
        self.saved.append((SparseGrid, 'collocation_1d', SparseGrid.__dict__['collocation_1d']))
        orig_col = SparseGrid.collocation_1d

        def col(*a, **k):
            inj.count['collocation'] += 1
            if inj.target == ('collocation', inj.count['collocation']) and not inj.fired:
                inj.fired = True
                raise Crash(f'collocation #{inj.count["collocation"]}')
            return orig_col(*a, **k)
        SparseGrid.collocation_1d = staticmethod(col)
        return self

    def __exit__(self, *exc):
        for cls, name, orig in self.saved:
            setattr(cls, name, orig)
        return False


def data_truthful(system, spec):
    """every stored training value equals the model's output at the stored grid point and fidelity (normalised units)"""
    import models_lib
    bad = []
    for comp, s in zip(system.components, spec):
        if not comp.has_surrogate:
            continue
        td = comp.training_data
        names = s['inputs']
        for alpha, d in td.yi_map.items():
            for coord, yi in d.items():
                xn = [td.x_grids[v][coord[k]] for k, v in enumerate(names)]
                xr = {v: np.array([float(comp.inputs[v].denormalize(np.array([xn[k]]))[0])]) for k, v in enumerate(names)}
                out = models_lib.poly_model(xr, model_fidelity=[tuple(alpha)] if len(alpha) else None, in_names=names, terms=s['raw_terms'],
                                            alpha_gain=s['alpha_gain'])
                for o in s['outputs']:
                    want = float(comp.outputs[o].normalize(np.asarray(out[o]))[0])
                    if not abs(float(yi[o]) - want) <= 1e-9 * (1 + abs(want)):
                        bad.append((comp.name, tuple(alpha), coord, o, float(yi[o]), want))
    return bad


def run_double(ctx: Ctx):
    """the same training run interrupted TWICE (inside model evaluations), saved both times into the same root directory: the second saved
    state must be the state at the second interruption (files of the first save may not survive in it), and resuming from it reaches the
    uninterrupted result"""
    from amisc import System
    rng = ctx.rng
    tmp = WORK / f'c13_tmp2_{os.getpid()}'
    shutil.rmtree(tmp, ignore_errors=True); tmp.mkdir(parents=True, exist_ok=True)
    cwd0 = os.getcwd()
    try:
        for n in range(ctx.pick(2, 8)):
            sys_seed = ctx.seed * 977 + n; np_seed = rng.randint(0, 10 ** 6); K = 5

            def fresh(root):
                r = random.Random(sys_seed)
                return systems.persist_chain_system(r, ncomp=2, name='cr', root_dir=root, with_alpha=True, costs=False, grid_opts=True)
            ref_sys, spec = fresh(None)
            with injector(None) as inj0, c12.reseeding(np_seed):
                ref_sys.fit(max_iter=K, num_refine=10, max_tol=-1.0)
            ref = c12.full_state(ref_sys)
            total = inj0.count['call_model']
            if total < 3:
                continue
            p1 = rng.randint(1, total - 1)
            root = tmp / f'amisc_d{n}'; root.mkdir()      # a root directory in the library's own naming scheme: a loaded file finds it again
            system, _ = fresh(root)
            case = {'double_interruption': n, 'system_seed': sys_seed, 'numpy_seed': np_seed, 'iterations': K, 'first_interruption_at_model_call': p1}
            ctx.case(case, nontrivial=True, kind='double')
            try:
                with injector(('call_model', p1)), c12.reseeding(np_seed):
                    try:
                        system.fit(max_iter=K, num_refine=10, max_tol=-1.0)
                        continue           # not reached
                    except Crash:
                        pass
                err_file = system.root_dir / 'surrogates' / 'cr_error.yml'
                os.chdir(tmp)
                try:
                    l1 = System.load_from_file(err_file)
                finally:
                    os.chdir(cwd0)
                if l1.root_dir is None or Path(l1.root_dir).resolve() != Path(system.root_dir).resolve():
                    ctx.violate('C13:resumed-run-cannot-save', f'the system loaded from {err_file} has root directory {l1.root_dir}: resumed training would not save '
                                f'into {system.root_dir} when it is interrupted again', case); continue
                # second interruption: at a later model call of the resumed run
                with injector(None) as injc, c12.reseeding(np_seed):
                    pass
                second = None
                for p2 in (2, 1):
                    l1c = System.load_from_file(err_file) if second is None else None
                    if l1c is None:
                        break
                    try:
                        with injector(('call_model', p2)), c12.reseeding(np_seed):
                            try:
                                l1c.fit(max_iter=K - l1c.refine_level, num_refine=10, max_tol=-1.0)
                            except Crash:
                                second = (p2, l1c)
                    except Exception as e:
                        ctx.violate('C13:resume-raises', f'resuming after the first interruption raised {type(e).__name__}: {e}', case); break
                if second is None:
                    ctx.count('second_interruption_not_reached'); continue
                p2, l1c = second
                case['second_interruption_at_model_call_of_resumed_run'] = p2
                level2 = l1c.refine_level
                os.chdir(tmp)
                try:
                    l2 = System.load_from_file(l1c.root_dir / 'surrogates' / 'cr_error.yml')
                except Exception as e:
                    ctx.violate('C13:saved-state-does-not-load', f'second interruption: loading raised {type(e).__name__}: {e}', case); continue
                finally:
                    os.chdir(cwd0)
                if len(l2.train_history) != level2:
                    ctx.violate('C13:history-length', f'second interruption: saved history has {len(l2.train_history)} entries, {level2} steps had completed', case)
                bad = data_truthful(l2, spec)
                if bad:
                    ctx.violate('C13:saved-value-not-a-model-output', f'second interruption: stored {bad[0]}', case)
                l2.root_dir = None
                try:
                    with c12.reseeding(np_seed):
                        l2.fit(max_iter=K - l2.refine_level, num_refine=10, max_tol=-1.0)
                except Exception as e:
                    ctx.violate('C13:resume-raises', f'resuming after the second interruption raised {type(e).__name__}: {e}', case); continue
                st = c12.full_state(l2)
                diffs = [d for d in c12.diff_states(ref, st) if d != 'history' or not c12.history_equiv(ref['history'], st['history'])]
                if diffs:
                    ctx.violate('C13:resumed-run-differs', f'after two interruptions saved into one directory, {diffs} differ from the uninterrupted run', case)
            finally:
                os.chdir(cwd0)
                shutil.rmtree(root, ignore_errors=True)
    finally:
        os.chdir(cwd0)
        shutil.rmtree(tmp, ignore_errors=True)


def run_executor_interrupt(ctx: Ctx):
    """training through an executor (non-vectorised models, one evaluation per task) interrupted INSIDE a model evaluation: the interruption
    must end the run (it is not a model failure to be recorded and imputed), the saved state holds only true outputs, resuming reaches the
    uninterrupted result"""
    from concurrent.futures import ThreadPoolExecutor
    from amisc import System
    import models_lib
    rng = ctx.rng
    tmp = WORK / f'c13_tmp3_{os.getpid()}'
    shutil.rmtree(tmp, ignore_errors=True); tmp.mkdir(parents=True, exist_ok=True)
    cwd0 = os.getcwd()
    sw = models_lib.SERIAL_CALLS
    try:
        for n in range(ctx.pick(2, 8)):
            sys_seed = ctx.seed * 1409 + n; np_seed = rng.randint(0, 10 ** 6); K = 4

            # every other system has a first component WITHOUT surrogate: its model runs inside every prediction, also inside the candidate
            # look-aheads that refine() hands to the executor (the interruption can then arrive while the logger is detached)
            analytic_first = n % 2 == 1
            if analytic_first:
                for j_ in range(200):
                    _, sp_ = systems.persist_chain_system(random.Random(sys_seed + 7919 * j_), ncomp=2, name='cx', with_alpha=True, costs=False, serial=True, no_surrogate_prob=0.5)
                    if not sp_[0]['has_surrogate'] and sp_[1]['has_surrogate']:
                        sys_seed = sys_seed + 7919 * j_; break
                else:
                    analytic_first = False

            def fresh(root, _seed=sys_seed, _p=(0.5 if analytic_first else 0.0)):
                return systems.persist_chain_system(random.Random(_seed), ncomp=2, name='cx', root_dir=root, with_alpha=True, costs=False, serial=True, no_surrogate_prob=_p)
            ref_sys, spec = fresh(None)
            sw.update(n=0, interrupt_at=None, exc=None)
            with ThreadPoolExecutor(max_workers=1) as pool, c12.reseeding(np_seed):
                ref_sys.fit(max_iter=K, num_refine=10, max_tol=-1.0, executor=pool)
            ref = c12.full_state(ref_sys)
            ntrain = sum(len(d) for c in ref_sys.components if c.has_surrogate for d in c.training_data.yi_map.values())
            if ntrain < 3:
                continue
            # with a surrogate-free component the evaluation count also covers the predictions made while training
            ps = sorted(set(rng.randint(2, sw['n']) for _ in range(8))) if analytic_first else [rng.randint(2, ntrain)]
            for p in ps:
                root = tmp / f'd{n}_{p}'; root.mkdir()
                system, _ = fresh(root)
                case = {'executor_interruption': n, 'system_seed': sys_seed, 'numpy_seed': np_seed, 'iterations': K, 'interrupted_model_evaluation': p,
                        'first_component_without_surrogate': analytic_first}
                ctx.case(case, nontrivial=True, kind='executor-interruption')
                sw.update(n=0, interrupt_at=p, exc=Crash)
                interrupted = False
                try:
                    with ThreadPoolExecutor(max_workers=1) as pool, c12.reseeding(np_seed):
                        try:
                            system.fit(max_iter=K, num_refine=10, max_tol=-1.0, executor=pool)
                        except Crash:
                            interrupted = True
                except Exception as e:
                    # on the way out fit() logs after saving; while candidate look-aheads run in the executor the logger is detached, and the log call then
                    # raises on top of the interruption - the property is about what was saved, so this counts as interrupted
                    if isinstance(e.__context__, Crash) or isinstance(e.__cause__, Crash):
                        interrupted = True
                    else:
                        ctx.violate('C13:interrupted-fit-raises-something-else', f'{type(e).__name__}: {e}', case); continue
                finally:
                    sw.update(interrupt_at=None, exc=None)
                try:
                    if not interrupted:
                        nerr = sum(len(d) for c in system.components if c.has_surrogate for d in c.training_data.error_map.values())
                        ctx.violate('C13:interruption-swallowed', f'a model evaluation was interrupted (a BaseException raised inside evaluation #{p}, run through an executor) '
                                    f'but fit() went on to the end; {nerr} evaluation(s) are recorded as model failures', case); continue
                    err_file = system.root_dir / 'surrogates' / 'cx_error.yml'
                    if not err_file.exists():
                        ctx.violate('C13:no-error-file', f'no cx_error.yml was written when model evaluation #{p} was interrupted (training through an executor)', case); continue
                    os.chdir(tmp)
                    try:
                        l1 = System.load_from_file(err_file)
                    except Exception as e:
                        ctx.violate('C13:saved-state-does-not-load', f'{type(e).__name__}: {e}', case); continue
                    finally:
                        os.chdir(cwd0)
                    bad = data_truthful(l1, spec)
                    if bad:
                        ctx.violate('C13:saved-value-not-a-model-output', f'stored {bad[0]}', case)
                    l1.root_dir = None
                    try:
                        with c12.reseeding(np_seed):
                            l1.fit(max_iter=K - l1.refine_level, num_refine=10, max_tol=-1.0)
                    except Exception as e:
                        ctx.violate('C13:resume-raises', f'{type(e).__name__}: {e}', case); continue
                    st = c12.full_state(l1)
                    diffs = [d for d in c12.diff_states(ref, st) if d != 'history' or not c12.history_equiv(ref['history'], st['history'])]
                    if diffs:
                        ctx.violate('C13:resumed-run-differs', f'after an interruption inside a model evaluation run through an executor, {diffs} differ from the uninterrupted run', case)
                finally:
                    shutil.rmtree(root, ignore_errors=True)
    finally:
        sw.update(n=0, interrupt_at=None, exc=None)
        os.chdir(cwd0)
        shutil.rmtree(tmp, ignore_errors=True)


def run_monitor_interrupt(ctx: Ctx):
    """training monitored with a test set, interrupted while the test-set performance of a step is being evaluated (the step's index is
    activated already): the saved state must carry that step in its history - one entry per activation - and resuming reaches the
    uninterrupted result"""
    from amisc import System
    rng = ctx.rng
    tmp = WORK / f'c13_tmp4_{os.getpid()}'
    shutil.rmtree(tmp, ignore_errors=True); tmp.mkdir(parents=True, exist_ok=True)
    cwd0 = os.getcwd()
    orig = System.test_set_performance
    try:
        for n in range(ctx.pick(2, 8)):
            sys_seed = ctx.seed * 2003 + n; np_seed = rng.randint(0, 10 ** 6); K = 5

            def fresh(root):
                return systems.persist_chain_system(random.Random(sys_seed), ncomp=2, name='cm', root_dir=root, with_alpha=True, costs=False)
            ref_sys, spec = fresh(None)
            rs = np.random.RandomState(sys_seed)
            xt = {str(v): np.asarray(v.denormalize(v.normalize(np.array([sum(v.get_domain()) / 2] * 6))), dtype=float) + 0.1 * (rs.rand(6) - 0.5) * (v.get_domain()[1] - v.get_domain()[0])
                  for v in ref_sys.inputs()}
            yt = ref_sys.predict(xt, use_model='best', normalized_inputs=False)
            test_set = (xt, {k: np.asarray(v) for k, v in yt.items()})
            with c12.reseeding(np_seed):
                ref_sys.fit(max_iter=K, num_refine=10, max_tol=-1.0, test_set=test_set, start_test_check=1)
            ref = c12.full_state(ref_sys)
            p = rng.randint(1, K - 1)
            root = tmp / f'd{n}'; root.mkdir()
            system, _ = fresh(root)
            case = {'monitor_interruption': n, 'system_seed': sys_seed, 'numpy_seed': np_seed, 'iterations': K, 'interrupted_test_set_evaluation': p}
            ctx.case(case, nontrivial=True, kind='monitor-interruption')
            calls = {'n': 0}

            def perf(self_, *a, **k):
                calls['n'] += 1
                if calls['n'] == p:
                    raise Crash(f'test_set_performance #{p}')
                return orig(self_, *a, **k)
            System.test_set_performance = perf
            interrupted = False
            try:
                with c12.reseeding(np_seed):
                    try:
                        system.fit(max_iter=K, num_refine=10, max_tol=-1.0, test_set=test_set, start_test_check=1)
                    except Crash:
                        interrupted = True
            finally:
                System.test_set_performance = orig
            try:
                if not interrupted:
                    ctx.count('interruption_not_reached'); continue
                os.chdir(tmp)
                try:
                    l1 = System.load_from_file(system.root_dir / 'surrogates' / 'cm_error.yml')
                except Exception as e:
                    ctx.violate('C13:saved-state-does-not-load', f'{type(e).__name__}: {e}', case); continue
                finally:
                    os.chdir(cwd0)
                nact = sum(len(c.active_set) for c in l1.components if c.has_surrogate)
                if len(l1.train_history) != nact:
                    ctx.violate('C13:history-length', f'interrupted while the test-set performance of step {p} was evaluated: the saved state has {nact} active indices '
                                f'but {len(l1.train_history)} history entries (one entry per activation)', case)
                l1.root_dir = None
                try:
                    if l1.refine_level < K:      # (an interruption while the LAST step was monitored leaves nothing to resume: fit() always makes one step)
                        with c12.reseeding(np_seed):
                            l1.fit(max_iter=K - l1.refine_level, num_refine=10, max_tol=-1.0, test_set=test_set, start_test_check=1)
                except Exception as e:
                    ctx.violate('C13:resume-raises', f'{type(e).__name__}: {e}', case); continue
                st = c12.full_state(l1)
                diffs = [d for d in c12.diff_states(ref, st) if d != 'history' or not c12.history_equiv(ref['history'], st['history'])]
                if diffs:
                    ctx.violate('C13:resumed-run-differs', f'after an interruption during the test-set evaluation of step {p}, {diffs} differ from the uninterrupted run', case)
            finally:
                shutil.rmtree(root, ignore_errors=True)
    finally:
        System.test_set_performance = orig
        os.chdir(cwd0)
        shutil.rmtree(tmp, ignore_errors=True)


def run(ctx: Ctx):
    import_amisc()
    from amisc import System
    rng = ctx.rng
    tmp = WORK / f'c13_tmp_{os.getpid()}'
    shutil.rmtree(tmp, ignore_errors=True)
    tmp.mkdir(parents=True, exist_ok=True)
    cwd0 = os.getcwd()
    ctx.rule = ('for each system (1-3 polynomial components with module-level models, optional model fidelity, cost-reporting models): an '
                'uninterrupted seeded fit() is recorded; then EVERY call of Component.call_model (training calls), SparseGrid.refine / set / '
                'impute_missing_data and Lagrange.refine made by that run is taken as an interruption point (a BaseException raised at that call): '
                'the *_error.yml written on the way out is loaded, index-set/weight invariants (C01/C02 oracles) and truthfulness of every stored '
                'value are checked, training is resumed for the remaining iterations with the same per-iteration seeds and compared with the '
                'uninterrupted run (history choices, index sets, weights, stored data, predictions; cost accounts separately); non-trivial = an '
                'interruption after the first iteration')
    flines, fmeta = [], []
    try:
        for n in range(ctx.pick(2, 12)):
            sys_seed = ctx.seed * 613 + n; np_seed = rng.randint(0, 10 ** 6); K = rng.randint(4, 5)
            kind_sys = 'costs' if n % 2 else 'plain'

            def fresh(root):
                r = random.Random(sys_seed)
                return systems.persist_chain_system(r, ncomp=r.randint(1, 2), name='cr', root_dir=root, with_alpha=True, costs=(kind_sys == 'costs'), grid_opts=True)
            # ---- uninterrupted reference, counting the calls
            ref_sys, spec = fresh(None)
            with injector(None) as inj0, c12.reseeding(np_seed):
                ref_sys.fit(max_iter=K, num_refine=10, max_tol=-1.0)
            totals = dict(inj0.count)
            ref = c12.full_state(ref_sys)
            np.random.seed(5); xq = ref_sys.sample_inputs(4)
            ref_pred = {m: {k: np.asarray(v).tolist() for k, v in ref_sys.predict(xq, index_set=m).items()} for m in ('train', 'test')}
            points = [(k, i) for k in KINDS for i in range(1, totals[k] + 1)]
            if ctx.quick and len(points) > 60:
                points = rng.sample(points, 60)
            for kind, i in points:
                root = tmp / f's{n}_{kind}_{i}'; root.mkdir()
                system, _ = fresh(root)
                case = {'system_seed': sys_seed, 'numpy_seed': np_seed, 'iterations': K, 'interrupt_at': [kind, i], 'calls_in_run': totals}
                crashed_level = None
                try:
                    with injector((kind, i)) as inj, c12.reseeding(np_seed):
                        try:
                            system.fit(max_iter=K, num_refine=10, max_tol=-1.0)
                        except Crash:
                            crashed_level = system.refine_level
                    if crashed_level is None:
                        ctx.count('interruption_not_reached'); continue
                    ctx.case(case, nontrivial=crashed_level >= 1, kind=kind)
                    err_file = system.root_dir / 'surrogates' / 'cr_error.yml'
                    if not err_file.exists():
                        ctx.violate('C13:no-error-file', f'no cr_error.yml was written when {kind} #{i} was interrupted', case); continue
                    os.chdir(tmp)
                    try:
                        loaded = System.load_from_file(err_file)
                    except Exception as e:
                        ctx.violate('C13:saved-state-does-not-load', f'{kind} #{i}: loading the file written on the way out raised {type(e).__name__}: {e}', case); continue
                    finally:
                        os.chdir(cwd0)
                    # invariants of the saved state
                    for comp in loaded.components:
                        if not comp.has_surrogate:
                            continue
                        snap = snapshot(comp)
                        mx = tuple(comp.model_fidelity) + tuple(comp.max_beta)
                        errs = oracle_c01(snap)
                        act, cand = set(snap['active']), set(snap['cand'])
                        from p_misc import is_dc, margin
                        if not is_dc(act) or act & cand or (act and cand != set(margin(act, mx))):
                            errs.append('index-set invariants broken')
                        if errs:
                            ctx.violate('C13:saved-state-inconsistent', f'{kind} #{i}: component {comp.name}: {errs[0]}', case)
                        # every index of the sets has an interpolator state and data
                        for a, b in comp.active_set.union(comp.candidate_set):
                            if comp.misc_states.get((a, b)) is None:
                                ctx.violate('C13:index-without-state', f'{kind} #{i}: index {(a, b)} of {comp.name} is in the saved sets but has no interpolator state', case)
                    # correspondence with Model/Train.v: the keys (fidelity, grid coordinate) stored in the saved state of the component whose
                    # activation was interrupted = store of tcrash after the completed requests, with j = store calls completed
                    if inj.current is not None:
                        cname, ca, cb = inj.current
                        lc = loaded[cname]
                        if lc.has_surrogate:
                            reqs_c = [list(h['alpha']) + list(h['beta']) for h in system.train_history if h['component'] == cname]
                            na_c = len(lc.model_fidelity)
                            mx_c = list(lc.model_fidelity) + list(lc.max_beta)
                            real_keys = sorted((tuple(a_), tuple(c_)) for a_, d_ in lc.training_data.yi_map.items() for c_ in d_)
                            flines.append('train_crash ' + enc([mx_c, na_c, int(lc.training_data.knots_per_level), [0] * len(lc.data_fidelity), reqs_c, list(ca) + list(cb), int(inj.sets_done),
                                                              [list(a_) + list(b_) for a_, b_ in inj.batch_order]]))
                            fmeta.append(({**case, 'component': cname, 'interrupted_request': [list(ca), list(cb)], 'stores_completed': int(inj.sets_done),
                                           'completed_requests': reqs_c, 'observed_batch_order': [list(a_) + list(b_) for a_, b_ in inj.batch_order],
                                           'batch_complete': inj.target[0] not in ('grid_refine', 'collocation')}, real_keys, sorted((tuple(a_), tuple(b_)) for a_, b_ in lc.active_set),
                                          sorted((tuple(a_), tuple(b_)) for a_, b_ in lc.candidate_set), na_c))
                    bad = data_truthful(loaded, spec)
                    if bad:
                        ctx.violate('C13:saved-value-not-a-model-output', f'{kind} #{i}: stored {bad[0]}', case)
                    if len(loaded.train_history) != crashed_level:
                        ctx.violate('C13:history-length', f'{kind} #{i}: saved history has {len(loaded.train_history)} entries, {crashed_level} steps had completed', case)
                    # resume
                    loaded.root_dir = None
                    try:
                        with c12.reseeding(np_seed):
                            loaded.fit(max_iter=K - loaded.refine_level, num_refine=10, max_tol=-1.0)
                    except Exception as e:
                        ctx.violate('C13:resume-raises', f'{kind} #{i}: resuming training raised {type(e).__name__}: {e}', case); continue
                    st = c12.full_state(loaded)
                    diffs = c12.diff_states(ref, st)
                    cost_only = [d for d in diffs if d.endswith('.costs') or d.endswith('.model_costs')]
                    hist_same_choices = [(h['component'], h['alpha'], h['beta']) for h in st['history']] == [(h['component'], h['alpha'], h['beta']) for h in ref['history']]
                    other = [d for d in diffs if d not in cost_only and d != 'history']
                    if 'history' in diffs and hist_same_choices:
                        # the error indicator is a difference of nearly equal predictions: compare it to rounding, everything else exactly
                        hc = all(a['num_evals'] == b['num_evals'] and a['added_cost'] == b['added_cost'] for a, b in zip(st['history'], ref['history']))
                        he = all(systems.floats_close([a['added_error']], [b['added_error']], rtol=1e-9, atol=1e-13) for a, b in zip(st['history'], ref['history']))
                        if hc and he:
                            diffs = [d for d in diffs if d != 'history']
                        elif hc:
                            other.append('history.added_error')
                    store_phase = kind in ('grid_set', 'grid_impute', 'interp_refine')
                    # ... but the cost accounts cannot explain a component that is never initialised, or initialisation steps that differ
                    ninit_ = sum(1 for h in ref['history'] if h['added_error'] != h['added_error'])
                    init_same = [(h['component'], h['alpha'], h['beta']) for h in st['history'][:ninit_]] == \
                                [(h['component'], h['alpha'], h['beta']) for h in ref['history'][:ninit_]]
                    all_initialised = all(bool(st['components'][c_]['active']) == bool(ref['components'][c_]['active']) for c_ in ref['components'])
                    if (not hist_same_choices or other) and store_phase and any(d.endswith('.costs') for d in diffs) and init_same and all_initialised:
                        # recorded finding F5a and its consequence: indices whose data were stored before the interruption are charged fewer
                        # evaluations on resume; the refinement criterion divides by that cost, so later choices may follow the changed accounts.
                        # What the saved state must still satisfy (loads, invariants, truthful data, resumes, finite predictions) was checked above.
                        ctx.violate('C13:cost-accounting-differs-after-store-phase-interruption',
                                    f'{kind} #{i}: cost accounts differ after resuming ({[d for d in diffs if d.endswith(".costs")]}), and the refinement '
                                    f'choices that divide by them follow', case)
                        continue
                    if not hist_same_choices or other:
                        ctx.violate('C13:resumed-run-differs', f'{kind} #{i}: after resuming, {other or "refinement choices"} differ from the uninterrupted run', case)
                    elif cost_only or 'history' in diffs:
                        ctx.violate('C13:cost-accounting-differs-after-store-phase-interruption' if store_phase else 'C13:cost-accounting-differs',
                                    f'{kind} #{i}: same surrogate after resuming, but {cost_only + (["history (num_evals/added_cost)"] if "history" in diffs else [])} differ '
                                    f'from the uninterrupted run', case)
                    pred = {m: {k: np.asarray(v).tolist() for k, v in loaded.predict(xq, index_set=m).items()} for m in ('train', 'test')}
                    for m in pred:
                        for k in pred[m]:
                            if not systems.floats_close(pred[m][k], ref_pred[m][k], rtol=1e-10, atol=1e-12):
                                ctx.violate('C13:resumed-prediction-differs', f'{kind} #{i}: {m}-mode prediction of {k} differs from the uninterrupted run', case)
                finally:
                    shutil.rmtree(root, ignore_errors=True)
    finally:
        os.chdir(cwd0)
        shutil.rmtree(tmp, ignore_errors=True)
    run_double(ctx)
    run_executor_interrupt(ctx)
    run_monitor_interrupt(ctx)
    from common import run_model, ModelError
    for (case, real_keys, real_act, real_cand, na_c), mo in zip(fmeta, run_model(flines, shards=8) if flines else []):
        ctx.count('saved_states_compared')
        if isinstance(mo, ModelError):
            ctx.disagree('C13:model-error', case, str(mo), None); continue
        mkeys = sorted((tuple(a_), tuple(c_)) for a_, c_ in mo[1])
        if mkeys != real_keys:
            ctx.disagree('C13:stored keys in the saved state', case, mkeys, real_keys)
        # the batch the code processed is the model's batch, as a set (only when every index of the batch had been reached)
        if case['batch_complete']:
            mb = sorted((tuple(a_), tuple(b_)) for a_, b_ in mo[2]); rb = sorted((tuple(o_[:na_c]), tuple(o_[na_c:])) for o_ in case['observed_batch_order'])
            if mb != rb:
                ctx.disagree('C13:indices of the interrupted batch', case, mb, rb)
        mact = sorted((tuple(i_[:na_c]), tuple(i_[na_c:])) for i_ in mo[3]); mcand = sorted((tuple(i_[:na_c]), tuple(i_[na_c:])) for i_ in mo[4])
        if mact != real_act or mcand != real_cand:
            ctx.disagree('C13:index sets in the saved state', case, [mact, mcand], [real_act, real_cand])
