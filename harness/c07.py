"""C07: feed-forward prediction is the composition of components in dependency order."""
from __future__ import annotations

import itertools
from fractions import Fraction

import numpy as np

from common import Ctx, enc, q, unq, run_model, ModelError, import_amisc
import systems


def canon_outputs(system, y, used_model: dict):
    """outputs in physical units: model outputs are raw, surrogate outputs are normalised"""
    out = {}
    owner = {str(v): c.name for c in system.components for v in c.outputs}
    for var, arr in y.items():
        v = system.outputs()[var]
        arr = np.asarray(arr, dtype=float)
        if owner[var] in used_model:          # only an explicit use_model returns raw values; a component without surrogate
            out[var] = arr                    # evaluated through predict() converts its outputs to surrogate (normalised) form
        else:
            out[var] = np.asarray(v.denormalize(arr), dtype=float)
    return out


def run(ctx: Ctx):
    import_amisc()
    run_main(ctx)
    run_nan_listing(ctx)
    run_positional(ctx)
    run_rewire(ctx)
    run_prefix_names(ctx)
    run_by_name(ctx)
    import c07g
    c07g.run_graph(ctx)
    run_field_chain(ctx)


def run_main(ctx: Ctx):
    from amisc import System
    rng = ctx.rng
    nsys = ctx.pick(30, 400)
    ctx.rule = ('random feed-forward systems (2-5 polynomial components with integer coefficients, shared exogenous inputs, fans/diamonds, some '
                'components without surrogate, random linear/zscore normalisations): true-model evaluation compared with the exact composition '
                '(Fractions) for every permutation of the component listing (<=4 comps) or random permutations, insert_components, random '
                'use_model dicts, requested-output subsets, raw vs normalised inputs; the evaluation order observed through instrumented models '
                'is checked with the extracted is_topological (Model/Sys.v); trained systems: surrogate prediction versus manual chaining of '
                'Component.predict; random topologies with several feedback loops and every directed graph on 2-3 (thorough: 4) components: System.graph() edges, the evaluation plan '
                'System.predict walks and the models called repeatedly versus Model/Graph.v (edges, sccs, plan_ok), values versus the exact coupled solution; a field coupling variable of rank 11-13; '
                'non-trivial = at least one component consumes another component\'s output')
    lines, meta = [], []
    flines, fmeta = [], []
    for n in range(nsys):
        logs = {}
        ncomp = rng.randint(2, 5)
        system, spec = systems.random_chain_system(rng, ncomp=ncomp, with_alpha=False, norms=rng.random() < 0.5,
                                                   no_surrogate_prob=0.3, name=f'd{n}', logs=logs)
        coupled = any(any(i.startswith('y') for i in s['inputs']) for s in spec)
        N = rng.randint(1, 4)
        xraw = {str(v): np.array([float(rng.randint(-4, 8)) / 4 for _ in range(N)]) for v in system.inputs()}
        case = {'system': n, 'components': [(s['name'], s['inputs'], s['outputs'], s['has_surrogate']) for s in spec],
                'x': {k: v.tolist() for k, v in xraw.items()}}
        ctx.case(case, nontrivial=coupled, kind=f'ncomp={ncomp}')
        exact = [systems.exact_system_eval(spec, {k: float(v[j]) for k, v in xraw.items()}) for j in range(N)]
        outs_all = [o for s in spec for o in s['outputs']]
        comps = list(system.components)
        perms = list(itertools.permutations(range(ncomp))) if ncomp <= 4 else [tuple(rng.sample(range(ncomp), ncomp)) for _ in range(6)]
        if len(perms) > 8:
            perms = [perms[0]] + rng.sample(perms[1:], 7)
        ref = None
        for perm in perms:
            # listing order: construct directly, or construct a part and insert the rest
            if rng.random() < 0.5:
                sysp = System(*[comps[i] for i in perm], name=f'd{n}p')
            else:
                k = rng.randint(1, ncomp)
                sysp = System(*[comps[i] for i in perm[:k]], name=f'd{n}p')
                if perm[k:]:
                    sysp.insert_components([comps[i] for i in perm[k:]])
            for lg in logs.values():
                lg.clear()
            order_log = []
            for cname, lg in logs.items():
                pass
            try:
                y = sysp.predict(xraw, use_model='best', normalized_inputs=False)
            except Exception as e:
                ctx.violate('C07:predict-raises', f'listing {perm}: {type(e).__name__}: {e}', {**case, 'listing': perm}); continue
            ctx.count('listings')
            for o in outs_all:
                got = np.ravel(np.asarray(y[o], dtype=float))
                want = [float(ex[o]) for ex in exact]
                if got.shape != (N,) or any(Fraction(float(g)) != ex[o] and abs(float(g) - w) > 1e-9 * (1 + abs(w)) for g, w, ex in zip(got, want, exact)):
                    ctx.violate('C07:not-the-composition', f'listing {perm}: output {o} = {got.tolist()}, composition in dependency order gives {want}',
                                {**case, 'listing': perm}); break
        # ---- evaluation order observed on the original listing, checked by the extracted is_topological
        call_seq = []

        def wrap(c):
            f = c.model

            def g(*a, **k):
                call_seq.append(c.name)
                return f(*a, **k)
            return g
        saved = [(c, c.model) for c in system.components]
        for c, f in saved:
            object.__setattr__(c, 'model', wrap(c))
        try:
            system.predict(xraw, use_model='best', normalized_inputs=False)
        finally:
            for c, f in saved:
                object.__setattr__(c, 'model', f)
        allvars = sorted({v for s in spec for v in s['inputs'] + s['outputs']})
        num = {v: i for i, v in enumerate(allvars)}
        cid = {s['name']: i for i, s in enumerate(spec)}
        comps_io = [[cid[s['name']], [num[v] for v in s['inputs']], [num[v] for v in s['outputs']]] for s in spec]
        lines.append('sys_topo ' + enc([comps_io, [num[v] for v in xraw], [cid[c] for c in call_seq]]))
        meta.append(({**case, 'call_order': call_seq}, len(spec)))
        # ---- requested-output subsets
        for _ in range(2):
            targets = rng.sample(outs_all, rng.randint(1, len(outs_all)))
            yt = system.predict(xraw, use_model='best', normalized_inputs=False, targets=targets)
            yfull = system.predict(xraw, use_model='best', normalized_inputs=False)
            for t in targets:
                if t not in yt or not np.array_equal(np.asarray(yt[t]), np.asarray(yfull[t])):
                    ctx.violate('C07:targets-change-values', f'targets={targets}: output {t} = {np.asarray(yt.get(t)).tolist()} but '
                                f'{np.asarray(yfull[t]).tolist()} when all outputs are requested', {**case, 'targets': targets})
        # ---- raw versus normalised inputs (true models): same physical outputs
        xnorm = {k: np.asarray(system.inputs()[k].normalize(v), dtype=float) for k, v in xraw.items()}
        y_raw = system.predict(xraw, use_model='best', normalized_inputs=False)
        y_nrm = system.predict(xnorm, use_model='best', normalized_inputs=True)
        for o in outs_all:
            if not systems.floats_close(y_raw[o], y_nrm[o], rtol=1e-9, atol=1e-9):
                ctx.violate('C07:raw-vs-normalised', f'output {o}: {np.asarray(y_raw[o]).tolist()} from raw inputs, {np.asarray(y_nrm[o]).tolist()} from normalised inputs', case)
        # ---- functional correspondence: Model/Sys.v eval (instantiated in Model/SysRun.v with the polynomial models and the variables'
        # normalisation chains, Model/Transf.v) run on the same inputs in exact rationals: raw inputs, normalised inputs (tagged so that
        # the model denormalises them as _gather_comp_inputs does), and a requested-output subset (early exit)
        import c16
        vobj = {str(v): v for v in system.variables()}
        tab = []
        for v in allvars:
            ch, hy = c16.model_chain(vobj[v]) if vobj[v].norm else ([], [[], []])
            tab.append([ch, hy])
        mcomps = [[cid[s['name']], [num[v] for v in s['inputs']], [num[v] for v in s['outputs']],
                   [[[q(Fraction(c)), list(e)] for c, e in s['terms'][o]] for o in s['outputs']], 1] for s in spec]
        sub = rng.sample(outs_all, rng.randint(1, len(outs_all)))
        y_sub = system.predict(xnorm, use_model='best', normalized_inputs=True, targets=sub)
        for j in range(N):
            for tag, xin, yimpl, tg in ((0, xraw, y_raw, outs_all), (1, xnorm, y_nrm, outs_all), (1, xnorm, y_sub, sub)):
                env0 = [[num[k], tag, q(Fraction(float(np.ravel(v)[j])))] for k, v in xin.items()]
                flines.append('sys_eval ' + enc([tab, mcomps, [cid[s['name']] for s in spec], env0, [num[o] for o in tg], [num[o] for o in tg]]))
                fmeta.append(({**case, 'sample': j, 'inputs_normalised': bool(tag), 'targets': list(tg)}, [float(np.ravel(yimpl[o])[j]) for o in tg], list(tg)))
        # ---- trained surrogate: prediction = manual chaining of Component.predict in dependency order; per-component overrides
        if n % 2 == 0:
            np.random.seed(ctx.seed * 13 + n)
            system.fit(max_iter=rng.randint(3, 7), num_refine=10, max_tol=-1.0, update_bounds=False)
            xs = system.sample_inputs(3)
            # per-component overrides, written as 'best', 'worst' or an explicit fidelity tuple (the empty tuple for a component without
            # model fidelity is a legal, falsy value: use_model={c.name: c.max_alpha})
            override = {s['name']: rng.choice(['best', 'worst', tuple(system[s['name']].max_alpha)]) for s in spec if rng.random() < 0.4}
            for um in (None, override):
                try:
                    ysys = system.predict(xs, use_model=um)
                except Exception as e:
                    ctx.violate('C07:predict-raises', f'surrogate predict (use_model={um}) raised {type(e).__name__}: {e}', case); continue
                ctx.count('surrogate_runs')
                # manual chaining in the dependency (= construction) order, in physical units
                pool = {k: np.asarray(system.inputs()[k].denormalize(v), dtype=float) for k, v in xs.items()}
                for s, comp in zip(spec, system.components):
                    if comp.name in (um or {}) or not comp.has_surrogate:
                        out = comp.call_model({v: pool[v] for v in s['inputs']})
                        for o in s['outputs']:
                            pool[o] = np.asarray(out[o], dtype=float)
                    else:
                        out = comp.predict({v: np.asarray(comp.inputs[v].normalize(pool[v]), dtype=float) for v in s['inputs']})
                        for o in s['outputs']:
                            pool[o] = np.asarray(comp.outputs[o].denormalize(out[o]), dtype=float)
                got = canon_outputs(system, ysys, um or {})
                for o in outs_all:
                    if not systems.floats_close(got[o], pool[o], rtol=1e-8, atol=1e-8):
                        ctx.violate('C07:surrogate-not-chained', f'use_model={um}: system output {o} = {got[o].tolist()}, manual chaining of the '
                                    f'components gives {pool[o].tolist()}', {**case, 'use_model': um})
                        break
    for (case, ncomp), mo in zip(meta, run_model(lines) if lines else []):
        ctx.count('orders_checked')
        if isinstance(mo, ModelError):
            ctx.disagree('C07:model-error', case, str(mo), None); continue
        if mo != 1:
            ctx.disagree('C07:evaluation-order-not-topological', case, 'is_topological = false', case['call_order'])
        if len(case['call_order']) != ncomp or len(set(case['call_order'])) != ncomp:
            ctx.violate('C07:component-not-called-once', f'components were called in the sequence {case["call_order"]}', case)
    for (case, yimpl, names), mo in zip(fmeta, run_model(flines, shards=8) if flines else []):
        ctx.count('evaluations_compared')
        if isinstance(mo, ModelError):
            ctx.disagree('C07:model-error', case, str(mo), None); continue
        if not mo or any(not v for v in mo[0]):
            ctx.disagree('C07:System.predict values', case, 'model evaluation stuck or target not computed', yimpl); continue
        mv = [unq(v[0]) for v in mo[0]]
        sc = max([abs(t) for t in mv] + [Fraction(1)])
        if any(not (a == a and abs(Fraction(a) - m) <= Fraction(1, 10 ** 9) * (abs(m) + sc)) for a, m in zip(yimpl, mv)):
            ctx.disagree('C07:System.predict values', case, {n_: float(m) for n_, m in zip(names, mv)}, dict(zip(names, yimpl)))


def run_nan_listing(ctx: Ctx):
    """a model that returns NaN for some samples must only affect the components that depend on it, whatever the listing order"""
    from amisc import Component, System, Variable
    rng = ctx.rng
    for n in range(ctx.pick(12, 120)):
        ncomp = rng.randint(2, 4)
        xv = [Variable(f'x{k}', domain=(0, 1)) for k in range(ncomp)]
        yv = [Variable(f'y{k}', domain=(-10, 10)) for k in range(ncomp)]
        deps = [None] + [rng.choice([None, rng.randrange(k)]) for k in range(1, ncomp)]   # optional dependence on an earlier output
        nan_comp = rng.randrange(ncomp)
        comps = []
        for k in range(ncomp):
            ins = [xv[k]] + ([yv[deps[k]]] if deps[k] is not None else [])

            def model(inputs, _k=k, _d=deps[k], _nan=(k == nan_comp)):
                x = np.asarray(inputs[f'x{_k}'], dtype=float)
                out = 2.0 * x + _k + (np.asarray(inputs[f'y{_d}'], dtype=float) if _d is not None else 0.0)
                ret = {f'y{_k}': np.where(x > 0.5, np.nan, out) if _nan else out}
                if _nan:
                    ret[f'w{_k}'] = 3.0 * x           # a second output that stays finite where the first is NaN
                return ret
            outs = [yv[k]] + ([Variable(f'w{k}', domain=(-10, 10))] if k == nan_comp else [])
            comps.append(Component(model, ins, outs, name=f'n{k}', vectorized=True))
        N = rng.randint(2, 5)
        x = {f'x{k}': np.array([rng.choice([0.125, 0.25, 0.75, 0.875]) for _ in range(N)]) for k in range(ncomp)}
        # expected values by direct composition
        exp = {}
        for k in range(ncomp):
            v = 2.0 * x[f'x{k}'] + k + (exp[f'y{deps[k]}'] if deps[k] is not None else 0.0)
            exp[f'y{k}'] = np.where(x[f'x{k}'] > 0.5, np.nan, v) if k == nan_comp else v
            if k == nan_comp:
                exp[f'w{k}'] = 3.0 * x[f'x{k}']
        case = {'nan_listing': n, 'deps': deps, 'nan_component': nan_comp, 'x': {k: v.tolist() for k, v in x.items()}}
        ctx.case(case, nontrivial=True, kind='nan-listing')
        for perm in itertools.permutations(range(ncomp)):
            system = System(*[comps[i] for i in perm], name=f'nl{n}')
            try:
                y = system.predict(x, use_model='best', normalized_inputs=False)
            except Exception as e:
                ctx.violate('C07:predict-raises:multi-output-component-with-NaN', f'listing {perm}: {type(e).__name__}: {e} (component n{nan_comp} '
                            f'returns NaN in its first output and a finite second output)', {**case, 'listing': perm}); break
            bad = [k for k in exp if not systems.floats_close(y[k], exp[k])]
            if bad:
                ctx.violate('C07:nan-of-one-component-blanks-independent-components',
                            f'listing {perm}: {bad[0]} = {np.asarray(y[bad[0]]).tolist()}, composition in dependency order gives {exp[bad[0]].tolist()} '
                            f'(only component n{nan_comp} returns NaN, for x{nan_comp} > 0.5)', {**case, 'listing': perm})
                break


def run_positional(ctx: Ctx):
    """components built from plain functions with positional signatures: every listing must feed each argument by NAME"""
    from amisc import System
    import unpacked_models as um
    rng = ctx.rng
    funcs = [um.square, um.mix, um.third]
    x = {'x0': np.array([0.25, 1.5, -2.0]), 'x1': np.array([1.0, 0.5, 3.0])}
    exp = um.expected(x['x0'], x['x1'])
    for perm in itertools.permutations(range(3)):
        for insert in (False, True):
            case = {'positional_listing': [funcs[i].__name__ for i in perm], 'insert': insert}
            ctx.case(case, nontrivial=True, kind='positional')
            try:
                if insert:
                    system = System(funcs[perm[0]], name='pos')
                    system.insert_components([funcs[i] for i in perm[1:]])
                else:
                    system = System(*[funcs[i] for i in perm], name='pos')
                y = system.predict(x, use_model='best', normalized_inputs=False)
            except Exception as e:
                ctx.violate('C07:predict-raises', f'positional models, listing {case["positional_listing"]}: {type(e).__name__}: {e}', case); continue
            for k, v in exp.items():
                if not systems.floats_close(y[k], v):
                    ctx.violate('C07:positional-arguments-misordered', f'listing {case["positional_listing"]}: {k} = {np.asarray(y[k]).tolist()}, '
                                f'composition gives {v.tolist()}', case); break


def run_prefix_names(ctx: Ctx):
    """output names that are proper prefixes of other output names ('T' / 'T_in' / 'T_mid', 'P' / 'P_in'): every requested output is
    computed (the early exit must compare whole names) and has the value of the exact composition, for all listings and target subsets"""
    from amisc import Component, System, Variable
    rng = ctx.rng
    V = {n: Variable(n, domain=(-50, 50)) for n in ('T_in', 'P_in', 'T_mid', 'T', 'P')}
    X = {n: Variable(n, domain=(0, 1)) for n in ('x0', 'x1', 'x2')}

    def inlet(inputs):
        x = np.asarray(inputs['x0'], dtype=float)
        return {'T_in': 2.0 * x + 1.0, 'P_in': x * x - 0.5}

    def heater(inputs):
        return {'T_mid': 1.5 * np.asarray(inputs['T_in'], dtype=float) + np.asarray(inputs['x1'], dtype=float)}

    def nozzle(inputs):
        tm, pi, x2 = (np.asarray(inputs[k], dtype=float) for k in ('T_mid', 'P_in', 'x2'))
        return {'T': tm - 2.0 * x2, 'P': pi * tm + x2}
    outs = ['T_in', 'P_in', 'T_mid', 'T', 'P']
    for n in range(ctx.pick(6, 40)):
        order = rng.sample(range(3), 3)
        mk = [lambda: Component(inlet, [X['x0']], [V['T_in'], V['P_in']], name='inlet', vectorized=True),
              lambda: Component(heater, [V['T_in'], X['x1']], [V['T_mid']], name='heater', vectorized=True),
              lambda: Component(nozzle, [V['T_mid'], V['P_in'], X['x2']], [V['T'], V['P']], name='nozzle', vectorized=True)]
        system = System(*[mk[i]() for i in order], name='pn')
        x = {k: np.array([rng.random(), rng.random()]) for k in ('x0', 'x1', 'x2')}
        tin = 2.0 * x['x0'] + 1.0; pin = x['x0'] ** 2 - 0.5; tmid = 1.5 * tin + x['x1']
        want = {'T_in': tin, 'P_in': pin, 'T_mid': tmid, 'T': tmid - 2.0 * x['x2'], 'P': pin * tmid + x['x2']}
        targets = rng.sample(outs, rng.randint(1, 5)) if rng.random() < 0.85 else None
        case = {'prefix_names': n, 'listing': order, 'targets': targets}
        ctx.case(case, nontrivial=True, kind='prefix-names')
        try:
            y = system.predict(x, use_model='best', normalized_inputs=False, targets=targets)
        except Exception as e:
            ctx.violate('C07:predict-raises', f'{type(e).__name__}: {e}', case); continue
        for t in (targets or outs):
            if t not in y:
                ctx.violate('C07:requested-output-missing', f'requested output {t!r} is missing from the result (returned: {sorted(y)})', case); break
            if not systems.floats_close(y[t], want[t]):
                ctx.violate('C07:wrong-value', f'output {t} = {np.asarray(y[t]).tolist()}, exact composition {want[t].tolist()}', case); break


def run_by_name(ctx: Ctx):
    """a downstream component that refers to its variables BY NAME only (their definition, with normalisations, lives in another component):
    however the system is assembled - full list in either order, or component by component with insert_components - every evaluation
    mode gives the exact composition"""
    from amisc import Component, System, Variable
    rng = ctx.rng

    def first(inputs):
        return {'y': np.asarray(inputs['x'], dtype=float) ** 2 + 1.0}

    def second(inputs):
        return {'z': 3.0 * np.asarray(inputs['y'], dtype=float) + np.asarray(inputs['x'], dtype=float)}
    for n in range(ctx.pick(4, 20)):
        def comps():
            x = Variable('x', domain=(1, 10), norm=rng.choice(['linear(0.5, 1)', 'zscore(1, 2)']))
            y = Variable('y', domain=(1, 200), norm=rng.choice(['log10', 'linear(0.25, -1)']))
            return Component(first, [x], [y], name='first', vectorized=True), Component(second, ['x', 'y'], ['z'], name='second', vectorized=True), x
        how = rng.choice(['list', 'reversed', 'insert-second', 'insert-first', 'insert-list'])
        c1, c2, xv = comps()
        if how == 'list':
            system = System(c1, c2)
        elif how == 'reversed':
            system = System(c2, c1)
        elif how == 'insert-second':
            system = System(c1); system.insert_components(c2)
        elif how == 'insert-first':
            system = System(c2); system.insert_components(c1)
        else:
            system = System(c1); system.insert_components([c2])
        x_raw = np.array([round(1.5 + 8 * rng.random(), 4) for _ in range(3)])
        z_true = 3.0 * (x_raw ** 2 + 1.0) + x_raw
        case = {'by_name_case': n, 'assembled': how, 'x': x_raw.tolist()}
        ctx.case(case, nontrivial=True, kind='by-name:' + how)
        for kw, xin in (({}, np.asarray(xv.normalize(x_raw), dtype=float)), ({'normalized_inputs': False}, x_raw)):
            for um in (None, 'best', {'first': 'best'}, {'second': 'best'}):
                try:
                    z = np.asarray(system.predict({'x': xin}, use_model=um, **kw)['z'], dtype=float)
                except Exception as e:
                    ctx.violate('C07:predict-raises', f'assembled by {how}, use_model={um}, {kw}: {type(e).__name__}: {e}', case); continue
                if not np.allclose(z, z_true, rtol=1e-9):
                    ctx.violate('C07:wrong-value', f'assembled by {how}, use_model={um}, {kw}: z = {z.tolist()}, exact composition {z_true.tolist()}', case)


def run_rewire(ctx: Ctx):
    """predict, then swap a component for one of the same name with different wiring, then predict again: must equal a fresh system"""
    from amisc import Component, System, Variable
    rng = ctx.rng
    for n in range(ctx.pick(6, 40)):
        xa, xb = Variable('xa', domain=(0, 1)), Variable('xb', domain=(0, 1))
        ya, yb = Variable('ya', domain=(-9, 9)), Variable('yb', domain=(-9, 9))

        def fa(inputs):
            return {'ya': 2.0 * np.asarray(inputs['xa'], dtype=float) + 1.0}

        def fb_old(inputs):
            return {'yb': 3.0 * np.asarray(inputs['xb'], dtype=float)}

        def fb_new(inputs):
            return {'yb': 3.0 * np.asarray(inputs['xb'], dtype=float) + np.asarray(inputs['ya'], dtype=float)}
        A = Component(fa, [xa], [ya], name='A', vectorized=True)
        B_old = Component(fb_old, [xb], [yb], name='B', vectorized=True)
        B_new = Component(fb_new, [xb, ya], [yb], name='B', vectorized=True)
        order = rng.choice([['A', 'B'], ['B', 'A']])
        comps = {'A': A, 'B': B_old}
        x = {'xa': np.array([0.25, 0.5]), 'xb': np.array([0.125, 1.0])}
        case = {'rewire': n, 'listing': order}
        ctx.case(case, nontrivial=True, kind='rewire')
        try:
            system = System(*[comps[c] for c in order], name='rw')
            system.predict(x, use_model='best', normalized_inputs=False)
            system.swap_component('B', B_new)
            y = system.predict(x, use_model='best', normalized_inputs=False)
        except Exception as e:
            ctx.violate('C07:stale-graph-after-swap', f'predict after swap_component raised {type(e).__name__}: {e}', case); continue
        want = 3.0 * x['xb'] + 2.0 * x['xa'] + 1.0
        if not systems.floats_close(y['yb'], want):
            ctx.violate('C07:stale-graph-after-swap', f'yb = {np.asarray(y["yb"]).tolist()} after swapping B for a component that also reads ya; expected {want.tolist()}', case)


def run_field_chain(ctx: Ctx):
    """A (scalar -> field) feeds B (field, scalar -> scalar); the field is compressed with an SVD of rank 12 (more than ten latent
    coefficients) that represents every produced field exactly, so the system must equal the plain composition on every path"""
    from amisc import Component, System, Variable
    from amisc.compression import SVD
    rng = ctx.rng
    for n in range(ctx.pick(2, 10)):
        dof, rank = rng.choice([(24, 12), (30, 13), (20, 11)])
        grid = np.linspace(0.0, 1.0, dof)
        shapes = np.stack([np.cos(k * np.pi * grid) for k in range(rank)], axis=0)
        wts = np.linspace(1.0, 3.0, dof) * np.sin(3 * grid + 0.2 + n)
        amp0 = np.array([0.1 * (k % 3) + 1.0 / (1 + k) for k in range(rank)]); amp1 = np.array([(-1) ** k / (1.0 + 0.3 * k) for k in range(rank)])

        def model_a(inputs, _sh=shapes, _a0=amp0, _a1=amp1):
            x = np.asarray(inputs['x'], dtype=float)
            return {'f': (_a0 + x[..., None] * _a1) @ _sh}

        def model_b(inputs, _w=wts):
            f = np.asarray(inputs['f'], dtype=float)
            return {'z': np.sum(_w * f, axis=-1) + np.asarray(inputs['s'], dtype=float) * f[..., 3]}
        rs = np.random.RandomState(n)
        dm = (rs.normal(size=(200, rank)) @ shapes).T
        order = ('A', 'B') if n % 2 == 0 else ('B', 'A')
        f = Variable('f', compression=SVD(rank=rank, coords=grid, data_matrix=dm))
        xv = Variable('x', domain=(0, 2)); sv = Variable('s', domain=(1, 5), norm=rng.choice([None, 'minmax', 'linear(2, 1)']))
        comps = {'A': Component(model_a, [xv], [f], name='A', vectorized=True), 'B': Component(model_b, [f, sv], [Variable('z')], name='B', vectorized=True)}
        system = System(*[comps[c] for c in order], name=f'fc{n}')
        N = 6
        raw = {'x': np.array([rng.randint(0, 8) / 4 for _ in range(N)]), 's': np.array([1 + rng.randint(0, 16) / 4 for _ in range(N)])}
        z_true = model_b({'f': model_a(raw)['f'], 's': raw['s']})['z']
        case = {'field_chain': n, 'rank': rank, 'dof': dof, 'listing': order, 'x': raw['x'].tolist(), 's': raw['s'].tolist()}
        ctx.case(case, nontrivial=True, kind=f'field-chain:rank{rank}')
        norm = {'x': xv.normalize(raw['x']), 's': sv.normalize(raw['s'])}
        for label, kw, xin in (('raw inputs', {'normalized_inputs': False}, raw), ('normalised inputs', {}, norm),
                               ('true models', {'normalized_inputs': False, 'use_model': 'best'}, raw),
                               ('override of A only', {'use_model': {'A': 'best'}}, norm), ('only z requested', {'targets': ['z']}, norm)):
            try:
                out = system.predict(xin, **kw)
            except Exception as e:
                ctx.violate('C07:predict-raises', f'{label}: {type(e).__name__}: {e}', {**case, 'path': label}); continue
            got = np.ravel(np.asarray(out['z'], dtype=float))
            if got.shape != z_true.shape or not np.allclose(got, z_true, rtol=1e-8, atol=1e-8):
                ctx.violate('C07:not-the-composition', f'{label}: z = {got.tolist()}, the composition B(A(x)) gives {z_true.tolist()} (field coupling variable with {rank} '
                            f'latent coefficients)', {**case, 'path': label}); break
