"""C05: Component.predict = weighted sum of tensor-product Lagrange interpolants of the model's evaluations.

(i)  interpolator level: Lagrange.refine weights and Lagrange.predict versus Model/Lagr.v in exact rationals;
(ii) component level: arbitrary deterministic (non-smooth, fidelity-dependent, multi-output) models; the reference is
     rebuilt by the extracted model from the component's grids/weights and FRESH calls of the model function at the
     grid points and fidelities, so misplaced, swapped or wrong-fidelity data shows up as a numeric difference."""
from __future__ import annotations

import itertools
import math
from fractions import Fraction

import numpy as np

from common import Ctx, enc, q, unq, frac, run_model, ModelError, import_amisc
import lagr
from lagr import within
from p_misc import margin


# ------------------------------------------------------------------------------------------------
# (i) interpolator level
# ------------------------------------------------------------------------------------------------
def dyadic(rng, lo, hi, bits=6):
    return lo + (hi - lo) * rng.randrange(0, 2 ** bits + 1) / 2 ** bits


def interp_cases(ctx: Ctx):
    from amisc.interpolator import Lagrange
    rng = ctx.rng
    n = ctx.pick(120, 1500)
    lines, meta = [], []
    for _ in range(n):
        d = rng.randint(1, 3)
        interp = Lagrange()
        doms, grids0, grids1 = {}, {}, {}
        for k in range(d):
            lo = rng.choice([-2.0, -1.0, 0.0, 0.5]); hi = lo + rng.choice([0.5, 1.0, 2.0, 4.0])
            doms[f'x{k}'] = (lo, hi)
            n0 = rng.randint(1, 3); n1 = n0 + rng.choice([0, 0, 1, 2])
            pts = []
            while len(pts) < n1:
                p = dyadic(rng, lo, hi)
                if p not in pts:
                    pts.append(p)
            grids0[f'x{k}'] = pts[:n0]; grids1[f'x{k}'] = pts
        names = list(doms)

        def tensor_pts(grids):
            prod = list(itertools.product(*[grids[v] for v in names]))
            return {v: np.array([p[i] for p in prod]) for i, v in enumerate(names)}
        ny = rng.randint(1, 2)

        def data_for(grids):
            prod = list(itertools.product(*[grids[v] for v in names]))
            return {f'y{j}': np.array([float(rng.randint(-8, 8)) / 4 for _ in prod]) for j in range(ny)}
        x0 = tensor_pts(grids0)
        st0 = interp.refine((), (x0, data_for(grids0)), None, doms)
        x1 = tensor_pts(grids1)
        y1 = data_for(grids1)
        st1 = interp.refine((), (x1, y1), st0, doms)
        case = {'domains': doms, 'grids0': grids0, 'grids1': grids1}
        # --- weights: model refine1 from the same history, per variable
        for v in names:
            C = Fraction(doms[v][1] - doms[v][0]) / Fraction(interp.interval_capacity)
            lines.append('lagr_refine1 ' + enc([q(C), [], [q(p) for p in x0[v].tolist()]]))
            meta.append(('w0', case, v, st0))
            lines.append('lagr_refine1 ' + enc([q(C), [[q(p) for p in np.asarray(st0.x_grids[v]).tolist()],
                                                        [q(w) for w in np.asarray(st0.weights[v]).tolist()]],
                                                [q(p) for p in x1[v].tolist()]]))
            meta.append(('w1', case, v, st1))
        # --- predictions at on-node / in-band / just outside / off / outside-domain points
        gn = [[Fraction(p) for p in np.asarray(st1.x_grids[v]).tolist()] for v in names]
        for _ in range(4):
            x = []
            for k, v in enumerate(names):
                r = rng.random(); lo, hi = doms[v]
                node = rng.choice(grids1[v])
                sp = (max(grids1[v]) - min(grids1[v])) or 1.0
                if r < 0.25:
                    x.append(node)
                elif r < 0.4:
                    x.append(node + rng.choice([-1, 1]) * 0.5e-8 * sp)
                elif r < 0.5:
                    x.append(node + rng.choice([-1, 1]) * 4e-8 * sp)
                elif r < 0.9:
                    x.append(lo + (hi - lo) * rng.random())
                else:
                    x.append(hi + (hi - lo) * rng.random())
            xf = [Fraction(v) for v in x]
            if lagr.near_threshold(gn, xf):
                continue
            ypred = interp.predict({v: np.array([x[k]]) for k, v in enumerate(names)}, st1, (x1, y1))
            for j in range(ny):
                ys = [Fraction(v) for v in y1[f'y{j}'].tolist()]
                lines.append('lagr_predict ' + enc([lagr.state_grids(st1, names), [q(v) for v in x], [q(v) for v in ys]]))
                meta.append(('p', {**case, 'x': x, 'output': j, 'data': y1[f'y{j}'].tolist()}, (gn, xf, ys), float(ypred[f'y{j}'][0])))
    outs = run_model(lines, shards=16)
    for (kind, case, a, b), mo in zip(meta, outs):
        if isinstance(mo, ModelError):
            ctx.disagree('C05:model-error', case, str(mo), None); continue
        if kind in ('w0', 'w1'):
            v, st = a, b
            mx, mw = mo
            ix = np.asarray(st.x_grids[v]).tolist(); iw = np.asarray(st.weights[v]).tolist()
            ctx.count('weight_comparisons')
            if [unq(t) for t in mx] != [Fraction(p) for p in ix]:
                ctx.disagree(f'C05:grid-{kind}', {**case, 'var': v}, [float(unq(t)) for t in mx], ix)
            elif any(not within(w, unq(t), abs(unq(t)), factor=Fraction(1, 2 ** 40)) for w, t in zip(iw, mw)) or len(iw) != len(mw):
                ctx.disagree(f'C05:weights-{kind}', {**case, 'var': v}, [float(unq(t)) for t in mw], iw)
        else:
            gn, xf, ys = a
            val, babs = unq(mo[0]), unq(mo[1])
            flags = lagr.band_flags(gn, xf)
            ctx.case(case, nontrivial=len(ys) > 1, kind='interp:' + '/'.join(sorted(set(flags))))
            if not within(b, val, babs):
                ctx.disagree('C05:Lagrange.predict', case, float(val), b)
            # oracle: plain Lagrange polynomial (inside a snapping band the code evaluates at the node)
            ref, rabs = lagr.tensor_lagrange(gn, ys, lagr.snap(gn, xf))
            if not within(b, ref, max(rabs, babs)):
                ctx.violate('C05:interpolant-value', f'Lagrange.predict gives {b}, the interpolation polynomial is {float(ref)}', case)


# ------------------------------------------------------------------------------------------------
# (ii) component level
# ------------------------------------------------------------------------------------------------
def rough_fn(coefs):
    """a deterministic non-smooth scalar function of (x tuple, alpha tuple); pure python floats"""
    def f(x, alpha):
        v = coefs['c0']
        for k, xk in enumerate(x):
            a, b, c = coefs['t'][k]
            v += a * abs(xk - b) + c * math.floor(3.0 * xk) + (0.5 if xk > b else -0.25)
        for k, ak in enumerate(alpha):
            v += coefs['a'][k] * (ak + 1) * (1.0 + (x[0] if x else 0.0))
        return v
    return f


def make_rough_component(rng, nx, na, ny, levels, kpl):
    from amisc import Component, Variable
    from amisc.training import SparseGrid
    xs = []
    for k in range(nx):
        lo = rng.choice([-1.0, 0.0, 2.0]); hi = lo + rng.choice([1.0, 2.0])
        if rng.random() < 0.2:       # zero strictly inside the domain and not its centre (so that 0.0 is in general not a node)
            lo, hi = -2.0, 3.0
        if rng.random() < 0.15:      # an un-normalised input far from the origin relative to its width (node matching must be exact, not "close")
            lo = 1048576.0; hi = lo + 1.0
        xs.append(Variable(f'x{k}', distribution=f'U({lo}, {hi})'))
    ys = [Variable(f'y{j}') for j in range(ny)]
    fns = [rough_fn({'c0': rng.randint(-2, 2) / 2, 't': [(rng.randint(-3, 3) / 2, rng.random(), rng.randint(-2, 2) / 4) for _ in range(nx)],
                     'a': [rng.randint(1, 3) / 4 for _ in range(na)]}) for _ in range(ny)]
    # the model also returns quantities the component does not declare: they must not influence the declared outputs' surrogate
    extra = rng.choice([None, 'finite', 'nan', 'long-nan', 'text'])
    nan_salt = rng.random()

    def model(inputs, model_fidelity=None):
        x = tuple(float(inputs[f'x{k}']) for k in range(nx))
        alpha = tuple(int(v) for v in np.atleast_1d(model_fidelity)) if model_fidelity is not None else ()
        ret = {f'y{j}': fns[j](x, alpha) for j in range(ny)}
        if extra == 'finite':
            ret['junk'] = 12345.0
        elif extra == 'nan':
            ret['junk'] = float('nan')
        elif extra == 'long-nan':      # longer than what the imputer handles, NaN at about a third of the points
            arr = np.arange(12, dtype=float) + (x[0] if x else 0.0)
            if (abs(math.sin(1000.0 * (sum(x) + nan_salt + sum(alpha)))) < 0.33):
                arr[5] = float('nan')
            ret['junk'] = arr
        elif extra == 'text':
            ret['junk'] = 'run-%d' % len(x)
        return ret
    kw = {'data_fidelity': tuple(levels)}
    if na:
        kw['model_fidelity'] = (2,) * na
    comp = Component(model, xs, ys, name='rough', vectorized=False, training_data=SparseGrid(knots_per_level=kpl), **kw)
    return comp, fns


def grow(rng, comp, na, mx, steps, through_executor=False, widen_first_input=False):
    active = set()
    ex = saved = None
    if through_executor:      # the evaluations of every batch (mixed fidelities) as separate tasks, completed in a random order
        import c15, random as _random
        ex = c15.SchedExecutor(lambda m, _r=_random.Random(rng.getrandbits(30)): _r.sample(range(m), m))
        saved = c15.install_wait(ex)
    try:
        for k_ in range(steps):
            m = margin(active, mx)
            if not m:
                break
            c = rng.choice(m)
            if widen_first_input and k_ == 2:      # better bounds became known in the middle of the history: later grids grow on the new domain
                v0 = list(comp.inputs)[0]
                lo_, hi_ = v0.get_domain()
                v0.update_domain((lo_ - 1.5 * (hi_ - lo_), hi_ + 0.5 * (hi_ - lo_)))
            comp.activate_index(tuple(c[:na]), tuple(c[na:]), executor=ex)
            active.add(c)
    finally:
        if saved is not None:
            import c15
            c15.restore_wait(saved)
    return active


def component_cases(ctx: Ctx):
    rng = ctx.rng
    ncomp = ctx.pick(24, 300)
    lines, meta = [], []
    for n in range(ncomp):
        nx = rng.randint(1, 3); na = rng.randint(0, 2) if nx < 3 else rng.randint(0, 1)
        ny = rng.randint(1, 3); kpl = rng.randint(1, 2)
        levels = [rng.randint(1, 2 if nx > 1 else 3) for _ in range(nx)]
        comp, fns = make_rough_component(rng, nx, na, ny, levels, kpl)
        mx = (2,) * na + tuple(levels)
        names = [f'x{k}' for k in range(nx)]
        reused = rng.random() < 0.25 or n % 6 == 3      # (always for every sixth component)
        if reused:
            # an earlier life of the same object: trained, evaluated (train and test mode), cleared, and the model replaced: nothing of it may
            # survive into the surrogate that is built next
            grow(rng, comp, na, mx, rng.randint(1, 4))
            xm = {v: np.array(sum(comp.inputs[v].get_domain()) / 2) for v in names}
            comp.predict(xm, index_set='train'); comp.predict(xm, index_set='test'); comp.gradient(xm)
            comp.clear(); comp.training_data.clear()
            fns[:] = [rough_fn({'c0': rng.randint(-2, 2) / 2, 't': [(rng.randint(-3, 3) / 2, rng.random(), rng.randint(-2, 2) / 4) for _ in range(nx)],
                                'a': [rng.randint(1, 3) / 4 for _ in range(na)]}) for _ in range(ny)]
        via_ex = n % 4 == 1      # every fourth component is trained through an executor
        widened = n % 5 == 2 and all(not v.norm for v in comp.inputs)
        active = grow(rng, comp, na, mx, rng.randint(3 if widened else 1, 6 if nx < 3 else 4), through_executor=via_ex, widen_first_input=widened)
        case0 = {'nx': nx, 'na': na, 'ny': ny, 'kpl': kpl, 'levels': levels, 'active': sorted(active), 'object_reused_after_clear': reused, 'trained_through_executor': via_ex, 'first_input_domain_widened_mid_history': widened}
        td = comp.training_data
        for mode in ('train', 'test'):
            iset = comp.active_set if mode == 'train' else comp.active_set.union(comp.candidate_set)
            tree = comp.misc_coeff_train if mode == 'train' else comp.misc_coeff_test
            # the weights the prediction sums with are those of the set in use (inclusion-exclusion), not leftovers of an earlier life of the object
            from p_misc import ie_value, tree_items
            S_ = {tuple(a_) + tuple(b_) for a_, b_ in iset}
            got_w = dict(tree_items(tree))
            if {k_: v_ for k_, v_ in got_w.items() if v_ != 0} != {k_: ie_value(S_, k_) for k_ in S_ if ie_value(S_, k_) != 0}:
                ctx.violate('C05:weights-not-those-of-the-set-in-use', f'{mode}-mode weights {sorted(got_w.items())} for the set {sorted(S_)}', case0); continue
            # terms rebuilt from the component's grids/weights and fresh model calls
            terms_by_out = [[] for _ in range(ny)]
            plain = []
            for alpha, beta in iset:
                w = tree[alpha, beta]
                st = comp.misc_states[alpha, beta]
                if any(v not in st.x_grids for v in names):
                    ctx.violate('C05:interpolator-state-without-grid', f'the interpolator state of index {(alpha, beta)} has no grid for {names}: no training '
                                f'point was accepted (the model also returns an undeclared quantity)', case0)
                    plain = None; break
                gnodes = [np.asarray(st.x_grids[v]).tolist() for v in names]
                # consistency of the state's grid with the sparse grid prefix used by beta
                sizes = td.beta_to_knots(beta[:nx])
                for k, v in enumerate(names):
                    if gnodes[k] != list(td.x_grids[v][:sizes[k]]):
                        ctx.violate('C05:grid-prefix', f'interpolator grid of index {(alpha, beta)} for {v} is not the first {sizes[k]} sparse-grid points', case0)
                pts = list(itertools.product(*gnodes))
                for j in range(ny):
                    data = [fns[j](tuple(p), tuple(alpha)) for p in pts]
                    terms_by_out[j].append([q(Fraction(float(w))), lagr.state_grids(st, names), [q(v) for v in data]])
                    if j == 0:
                        plain.append((float(w), [[Fraction(v) for v in g] for g in gnodes], None))
                # stored data = fresh data (truthful store), via get_training_data
                xt, yt = comp.training_data.get(alpha, beta[:nx], y_vars=[f'y{j}' for j in range(ny)], skip_nan=True)
                for j in range(ny):
                    fresh = [fns[j](tuple(p), tuple(alpha)) for p in pts]
                    if np.asarray(yt[f'y{j}']).tolist() != fresh:
                        ctx.violate('C05:stored-data', f'stored data of index {(alpha, beta)} output y{j} differ from the model at the grid points', case0)
            if plain is None:
                continue
            for _ in range(3):
                x = []
                for k, v in enumerate(names):
                    lo, hi = comp.inputs[v].get_domain()
                    r = rng.random()
                    if r < 0.15 and lo < 0.0 < hi and lo + hi != 0.0:
                        x.append(0.0)        # exactly zero, inside the domain, in general not a node (padding of ragged node tables must not act as a node)
                    elif r < 0.3:
                        x.append(float(rng.choice(td.x_grids[v])))
                    elif r < 0.4:
                        x.append(float(rng.choice(td.x_grids[v])) + rng.choice([-1, 1]) * 0.5e-8 * (hi - lo))
                    elif r < 0.9:
                        x.append(lo + (hi - lo) * rng.random())
                    else:
                        x.append(lo - 0.3 * (hi - lo) * rng.random())
                allnodes = [[Fraction(v) for v in td.x_grids[v]] for v in names]
                xf = [Fraction(v) for v in x]
                if lagr.near_threshold(allnodes, xf):
                    continue
                pred = comp.predict({v: np.array(x[k]) for k, v in enumerate(names)}, index_set=mode)
                if rng.random() < 0.25:
                    # the same prediction with the per-index interpolations handed to an executor that completes them in a random order
                    import c15
                    sr = rng.getrandbits(30)
                    import random as _random
                    ex = c15.SchedExecutor(lambda m, _r=_random.Random(sr): _r.sample(range(m), m))
                    saved = c15.install_wait(ex)
                    try:
                        pred_ex = comp.predict({v: np.array(x[k]) for k, v in enumerate(names)}, index_set=mode, executor=ex)
                    finally:
                        c15.restore_wait(saved)
                    ctx.count('executor_predictions')
                    for j in range(ny):
                        a_, b_ = float(np.ravel(pred[f'y{j}'])[0]), float(np.ravel(pred_ex[f'y{j}'])[0])
                        if not (a_ == b_ or (a_ != a_ and b_ != b_)):
                            ctx.violate('C05:executor-prediction-differs', f'{mode}-mode prediction of y{j} at {x}: {b_} through an executor (random completion '
                                        f'order), {a_} serially', {**case0, 'mode': mode, 'x': x})
                for j in range(ny):
                    lines.append('misc_predict ' + enc([terms_by_out[j], [q(v) for v in x]]))
                    meta.append(({**case0, 'mode': mode, 'x': x, 'output': j}, float(np.ravel(pred[f'y{j}'])[0]),
                                 terms_by_out[j], lagr.band_flags(allnodes, xf)))
                # explicitly given weights and index sets: (a) a named set with the caller's own weight tree (every weight tripled and
                # negated); (b) an explicit SUBSET of the indices together with the full weight tree: only the indices of the set contribute
                if rng.random() < 0.4 and len(list(iset)) >= 1:
                    import copy as _copy
                    xin_ = {v: np.array(x[k]) for k, v in enumerate(names)}
                    from amisc.component import MiscTree
                    t3 = MiscTree()
                    for a_, b_, w_ in list(tree):
                        t3[a_, b_] = -3.0 * float(w_)
                    try:
                        pa = comp.predict(xin_, index_set=mode, misc_coeff=t3)
                        va = float(np.ravel(pa['y0'])[0])
                        terms_a = [[q(Fraction(-3) * unq(t_[0])), t_[1], t_[2]] for t_ in terms_by_out[0]]
                        lines.append('misc_predict ' + enc([terms_a, [q(v) for v in x]]))
                        meta.append(({**case0, 'mode': mode, 'x': x, 'output': 0, 'explicit': 'named set, weights = -3 x stored'}, va,
                                     terms_a, lagr.band_flags(allnodes, xf)))
                        members = list(iset)
                        sub = rng.sample(members, rng.randint(1, len(members)))
                        from amisc.component import IndexSet
                        pb = comp.predict(xin_, index_set=IndexSet(sub), misc_coeff=tree)
                        order_ = [(tuple(a_), tuple(b_)) for a_, b_ in iset]
                        subk = {(tuple(a_), tuple(b_)) for a_, b_ in sub}
                        terms_b = [t_ for t_, key_ in zip(terms_by_out[0], order_) if key_ in subk]
                        if 'y0' in pb and any(unq(t_[0]) != 0 for t_ in terms_b):       # a subset of zero-weight indices contributes nothing
                            vb = float(np.ravel(pb['y0'])[0])
                            lines.append('misc_predict ' + enc([terms_b, [q(v) for v in x]]))
                            meta.append(({**case0, 'mode': mode, 'x': x, 'output': 0, 'explicit': f'index subset {sorted(subk)} with the full weight tree'},
                                         vb, terms_b, lagr.band_flags(allnodes, xf)))
                        ctx.count('explicit_weight_predictions')
                    except Exception as e:
                        ctx.violate('C05:explicit-weights-predict-raises', f'{type(e).__name__}: {e}', {**case0, 'mode': mode, 'x': x})
        if n == 0 or rng.random() < 0.3:
            # a single-fidelity full-tensor surrogate passes through every training point it uses
            pass
    outs = run_model(lines, shards=16)
    for (case, impl, terms, flags), mo in zip(meta, outs):
        if isinstance(mo, ModelError):
            ctx.disagree('C05:model-error', case, str(mo), None); continue
        val = unq(mo)
        # bound: sum over terms of |w| * sum |basis * y| is not returned by misc_predict; use the exact oracle's abs sum
        ref = Fraction(0); rabs = Fraction(0)
        for w, gs, ys in terms:
            gn = [[unq(t) for t in g[1]] for g in gs]
            r, a = lagr.tensor_lagrange(gn, [unq(t) for t in ys], lagr.snap(gn, [Fraction(v) for v in case['x']]))
            ref += unq(w) * r; rabs += abs(unq(w)) * a
        ctx.case(case, nontrivial=len(terms) > 1, kind='component:' + '/'.join(sorted(set(flags))))
        if not within(impl, val, rabs):
            ctx.disagree('C05:Component.predict', case, float(val), impl)
        if not within(impl, ref, rabs):
            ctx.violate('C05:misc-formula', f'Component.predict gives {impl}; weighted sum of interpolation polynomials of the '
                        f'model evaluations is {float(ref)}', case)


def select_cases(ctx: Ctx):
    """which stored points SparseGrid.get_by_coord(y_vars, skip_nan=True) hands out, versus Model/Select.v training_rows on the same table
    (stored values with the imputed ones substituted): only the requested quantities decide"""
    from amisc.training import SparseGrid
    rng = ctx.rng
    lines, meta = [], []
    for n in range(ctx.pick(60, 600)):
        nq = rng.randint(1, 4); npts = rng.randint(1, 6)
        qn = [f'q{j}' for j in range(nq)]
        td = SparseGrid()
        td.x_grids['x'] = [k / 8 for k in range(npts)]
        alpha = ()
        td.yi_map[alpha] = {}; td.yi_nan_map[alpha] = {}; td.error_map[alpha] = {}
        rows = []
        for k in range(npts):
            # an imputed record, when it exists, covers every quantity stored at the point (as impute_missing_data writes it)
            stored, eff, imputed = {}, [], {}
            has_imputed = rng.random() < 0.4
            for j, name in enumerate(qn):
                r = rng.random()
                val = float(rng.randint(-9, 9))
                if r < 0.6:
                    stored[name] = val; eff.append([int(val)])
                elif r < 0.9:
                    stored[name] = float('nan')
                    if has_imputed:
                        imputed[name] = val; eff.append([int(val)])                   # missing, imputed
                    else:
                        eff.append([])                                                # missing, nothing imputed
                else:
                    eff.append([])                                                    # not returned at all (evaluation raised in an all-failing call)
            td.yi_map[alpha][(k,)] = stored
            if has_imputed and imputed:
                td.yi_nan_map[alpha][(k,)] = {**{m: v for m, v in stored.items() if v == v}, **imputed}
            rows.append(eff)
        req = sorted(rng.sample(range(nq), rng.randint(1, nq)))
        case = {'select_case': n, 'quantities': nq, 'requested': req, 'rows (after imputation; [] = missing)': rows}
        ctx.case(case, nontrivial=npts >= 2 and nq >= 2, kind='select')
        try:
            xi, yi = td.get_by_coord(alpha, [(k,) for k in range(npts)], y_vars=[qn[j] for j in req], skip_nan=True)
        except Exception as e:
            ctx.violate('C05:get_by_coord-raises', f'{type(e).__name__}: {e}', case); continue
        got_rows = []
        if yi:
            cols = [np.ravel(np.asarray(yi[qn[j]], dtype=float)).tolist() for j in req]
            got_rows = [[[int(c[i])] for c in cols] for i in range(len(cols[0]))]
        got_x = np.ravel(np.asarray(xi.get('x', []), dtype=float)).tolist()
        lines.append('select_rows ' + enc([req, rows]))
        meta.append((case, got_rows, got_x, rows, req))
    for (case, got_rows, got_x, rows, req), mo in zip(meta, run_model(lines, shards=4) if lines else []):
        ctx.count('selections_compared')
        if isinstance(mo, ModelError):
            ctx.disagree('C05:model-error', case, str(mo), None); continue
        if mo[0] != got_rows:
            ctx.disagree('C05:SparseGrid.get_by_coord rows', case, mo[0], got_rows)
        # oracle: a point is handed out iff every requested quantity is present there
        want_x = [k / 8 for k, r in enumerate(rows) if all(r[j] for j in req)]
        if got_x != want_x:
            ctx.violate('C05:training-points-depend-on-unrequested-outputs', f'points handed out for quantities {req}: x = {got_x}; the points where all of '
                        f'them are present: {want_x}', case)


def run(ctx: Ctx):
    import_amisc()
    ctx.rule = ('(i) Lagrange states built by refine() on random dyadic tensor grids (1-3 dims, 1-5 nodes/dim, one incremental '
                'refinement), weights and predictions at on-node / in-band / just-outside / interior / outside-domain points compared '
                'with Model/Lagr.v in exact rationals (bound 2^-30 * sum|terms|); (ii) components with non-smooth fidelity-dependent '
                'multi-output models, 1-3 inputs, 0-2 model-fidelity dims, knots/level 1-2, random admissible index sets, train and '
                'test mode: Component.predict versus the extracted misc_predict on grids/weights read from the component and FRESH '
                'model calls, and versus an independent Fraction Lagrange oracle; (iii) hand-built SparseGrid tables (stored / missing / imputed / '
                'not-returned quantities): the points get_by_coord(y_vars, skip_nan=True) hands out versus Model/Select.v; non-trivial = more than one data point / term')
    interp_cases(ctx)
    component_cases(ctx)
    select_cases(ctx)
