"""C11: reported gradients and Hessians are the exact derivatives of the prediction."""
from __future__ import annotations

import itertools
from fractions import Fraction

import numpy as np

from common import Ctx, enc, q, unq, run_model, ModelError, import_amisc
import lagr
import p_exact

TWO30 = Fraction(1, 2 ** 30)


def pick_point(rng, grid, lo, hi):
    """(value, kind) for one coordinate: exactly on a node / inside the snapping band / interior (well separated) / outside"""
    r = rng.random()
    sp = (max(grid) - min(grid)) or 1.0
    if r < 0.35:
        return float(rng.choice(grid)), 'on'
    if r < 0.45:
        return float(rng.choice(grid)) + rng.choice([-1, 1]) * 2.0 ** -29 * sp, 'band'
    if r < 0.55 and len(grid) > 1:
        return float(rng.choice(grid)) + rng.choice([-1, 1]) * 2.0 ** -12 * sp, 'near'
    if r < 0.62 and len(grid) > 1:
        # 2^-22 of the spread away from a node: outside the snapping band (1e-8), where the barycentric second-derivative formula cancels
        return float(rng.choice(grid)) + rng.choice([-1, 1]) * 2.0 ** -22 * sp, 'close'
    for _ in range(50):
        x = lo + (hi - lo) * (rng.random() * 1.2 - 0.1)
        if min(abs(x - g) for g in grid) >= 2.0 ** -7 * sp:
            return x, 'off'
    return float(rng.choice(grid)), 'on'


def derivative_checks(ctx, sig, case, gn, data_sets, xf, kinds, grad, hess, nx):
    """grad[out][k], hess[out][k][l] floats versus exact derivatives of sum_t w_t * tensor interpolant_t"""
    msep = [min([abs(a - b) for a in g for b in g if a != b] or [Fraction(1)]) for g in gn]     # per input: derivatives scale with 1/spacing
    for out, terms in data_sets.items():
        ysum = sum(abs(w) * sum(abs(y) for y in ys) for w, g, ys in terms) + 1
        # inside a band the code evaluates the at-node formulas at the actual point: deviation proportional to the band width
        band = any(k == 'band' for k in kinds)
        for order, arr in ((1, grad), (2, hess)):
            if arr is None:
                continue
            near = any(k in ('near', 'close') for k in kinds)     # 2^-12 / 2^-22 of the spread away from a node: outside every band
            close = any(k == 'close' for k in kinds)
            idxs = [(k,) for k in range(nx)] if order == 1 else [(k, l) for k in range(nx) for l in range(nx)]
            for idx in idxs:
                scale = ysum * 16
                for k in idx:
                    scale = scale / msep[k]
                tol = scale * (Fraction(1, 10 ** 4) if band else Fraction(1, 10 ** 5) if near else Fraction(1, 10 ** 8))
                ref = Fraction(0)
                for w, g, ys in terms:
                    xs = lagr.snap(g, xf) if band else xf
                    r, _ = lagr.tensor_lagrange(g, ys, xs, deriv=idx)
                    ref += w * r
                got = float(arr[out][idx[0]] if order == 1 else arr[out][idx[0]][idx[1]])
                if not (got == got and abs(Fraction(got) - ref) <= tol):
                    name = 'gradient' if order == 1 else 'hessian'
                    ctx.violate(f'{sig}:hessian-inaccurate-close-to-a-node' if (order == 2 and close) else f'{sig}:{name}-wrong:{"/".join(sorted(set(kinds)))}',
                                f'{name} of {out} w.r.t. x{idx} is {got}; the derivative of the interpolation polynomial is {float(ref)} '
                                f'(allowed {float(tol):.2e}); coordinates are {kinds}', {**case, 'index': idx})
                    return False
    return True


def interp_level(ctx: Ctx):
    from amisc.interpolator import Lagrange
    rng = ctx.rng
    lines, meta = [], []
    for _ in range(ctx.pick(80, 900)):
        d = rng.randint(1, 3)
        interp = Lagrange()
        names = [f'x{k}' for k in range(d)]
        doms = {}
        for v in names:
            w = rng.choice([1.0, 2.0, 0.5, 2.0 ** -14, 2.0 ** -10, 2.0 ** 10, 2.0 ** 14])        # inputs of very different scale side by side
            lo = rng.choice([-1.0, 0.0, 2.0, 2.0 ** 20, -2.0 ** 20]) * w      # also domains a million widths away from the origin (still exact in floating point)
            doms[v] = (lo, lo + w)
        grids = {}
        for v in names:
            n = rng.randint(1, 5); g = []
            while len(g) < n:
                p = doms[v][0] + (doms[v][1] - doms[v][0]) * rng.randrange(0, 65) / 64
                if p not in g:
                    g.append(p)
            grids[v] = g
        prod = list(itertools.product(*[grids[v] for v in names]))
        ny = rng.randint(1, 2)
        ys = {f'y{j}': np.array([rng.randint(-8, 8) / 4 for _ in prod]) for j in range(ny)}
        xt = {v: np.array([p[i] for p in prod]) for i, v in enumerate(names)}
        st = interp.refine((), (xt, ys), None, doms)
        gn = [[Fraction(t) for t in np.asarray(st.x_grids[v]).tolist()] for v in names]
        case0 = {'domains': doms, 'grids': grids, 'data': {k: v.tolist() for k, v in ys.items()}}
        for pt_idx in range(3):
            pk = [pick_point(rng, grids[v], *doms[v]) for v in names]
            x = [p for p, _ in pk]; kinds = [k for _, k in pk]
            xf = [Fraction(t) for t in x]
            if lagr.near_threshold(gn, xf):
                continue
            korder = rng.sample(range(d), d)               # the caller's dict may list the inputs in any order
            xin = {names[i]: np.array([x[i]]) for i in korder}
            case = {**case0, 'x': x, 'kinds': kinds, 'input_key_order': [names[i] for i in korder]}
            try:
                g = interp.gradient(xin, st, (xt, ys))
            except Exception as e:
                ctx.violate(f'C11:gradient-raises:{"/".join(sorted(set(kinds)))}', f'Lagrange.gradient raised {type(e).__name__}: {e}', case); continue
            try:
                h = interp.hessian(xin, st, (xt, ys))
            except Exception as e:
                single = any(len(grids[v]) == 1 for v in names)
                ctx.violate('C11:hessian-raises:single-node-grid' if single else 'C11:hessian-raises',
                            f'Lagrange.hessian raised {type(e).__name__}: {e} (grid sizes {[len(grids[v]) for v in names]}, coordinates {kinds})', case)
                h = None
            ctx.case(case, nontrivial=len(prod) > 1, kind='interp:' + '/'.join(sorted(set(kinds))))
            grad = {o: np.ravel(g[o]).tolist() for o in ys}
            hess = None if h is None else {o: np.asarray(h[o]).reshape(d, d).tolist() for o in ys}
            terms = {o: [(Fraction(1), gn, [Fraction(t) for t in ys[o].tolist()])] for o in ys}
            derivative_checks(ctx, 'C11', case, gn, terms, xf, kinds, grad, hess, d)
            if 'band' not in kinds:      # inside a band the model and the code agree as well, compared below too
                pass
            for o in ys:
                lines.append('lagr_grad ' + enc([lagr.state_grids(st, names), [q(t) for t in x], [q(t) for t in ys[o].tolist()]]))
                meta.append((case, o, grad[o], gn, ys[o]))
                # exact-rational Hessians of large tensor grids are the slow part: the quick tier sends one point per grid and only grids of <= 27 nodes
                if hess is not None and (not ctx.quick or (pt_idx == 0 and len(prod) <= 27)):
                    lines.append('lagr_hess ' + enc([lagr.state_grids(st, names), [q(t) for t in x], [q(t) for t in ys[o].tolist()]]))
                    meta.append((case, o, ('hess', hess[o]), gn, ys[o]))
    for (case, o, gimpl, gn, y), mo in zip(meta, run_model(lines, shards=16)):
        if isinstance(mo, ModelError):
            ctx.disagree('C11:model-error', case, str(mo), None); continue
        minsep = min([abs(a - b) for g in gn for a in g for b in g if a != b] or [Fraction(1)])
        scale = (sum(abs(Fraction(t)) for t in y.tolist()) + 1) / minsep * 16
        if isinstance(gimpl, tuple):         # Hessian: model thess versus Lagrange.hessian, entry by entry
            ctx.count('hessians_compared')
            msp = [min([abs(a - b) for a in g for b in g if a != b] or [Fraction(1)]) for g in gn]
            bad = False
            for m_, row in enumerate(gimpl[1]):
                for n_, hv in enumerate(row):
                    sc = (sum(abs(Fraction(t)) for t in y.tolist()) + 1) * 16 / (msp[m_] * msp[n_])
                    if 'close' in case['kinds']:
                        continue          # reported by the derivative oracle (recorded finding F23)
                    near = 'near' in case['kinds'] or 'band' in case['kinds']
                    if not (hv == hv and abs(Fraction(hv) - unq(mo[m_][n_])) <= Fraction(1, 10 ** (6 if near else 8)) * sc):
                        ctx.disagree('C11:Lagrange.hessian', {**case, 'output': o, 'entry': (m_, n_)}, float(unq(mo[m_][n_])), hv); bad = True; break
                if bad:
                    break
            continue
        for k, (gi, gm) in enumerate(zip(gimpl, mo)):
            if not (gi == gi and abs(Fraction(gi) - unq(gm)) <= Fraction(1, 10 ** 8) * scale):
                ctx.disagree('C11:Lagrange.gradient', {**case, 'output': o, 'dim': k}, float(unq(gm)), gi)
                break


def component_level(ctx: Ctx):
    rng = ctx.rng
    mlines, mmeta = [], []
    for i in range(ctx.pick(20, 200)):
        nx = rng.choice([1, 2, 2, 3]); ny = rng.randint(1, 2); kpl = rng.randint(1, 2); na = rng.randint(0, 1)
        levels = [rng.randint(1, 2) for _ in range(nx)]
        doms = [(lo := rng.choice([-1.0, 0.0, 3.0]), lo + rng.choice([1.0, 2.0])) for _ in range(nx)]
        comp, terms = p_exact.build_poly_component(rng, nx, na, ny, levels, kpl, doms, name='g', alpha_gain=(0.375 if na else 0.0))
        mx = (2,) * na + tuple(levels)
        order = p_exact.random_order(rng, mx, rng.randint(1, 6))
        # an arbitrary (not resolvable) polynomial: the derivative of the *surrogate* is what is checked
        for out in terms:
            terms[out].clear()
            terms[out].extend((rng.randint(-3, 3) or 1, tuple(rng.randint(0, 4) for _ in range(nx))) for _ in range(3))
        try:
            p_exact.grow_to(comp, na, order)
        except Exception as e:
            ctx.violate('C11:activation-raises', f'{type(e).__name__}: {e}', {'order': order}); continue
        names = [f'x{k}' for k in range(nx)]
        td = comp.training_data
        case0 = {'nx': nx, 'na': na, 'kpl': kpl, 'levels': levels, 'domains': doms, 'order': order,
                 'terms': {k: list(v) for k, v in terms.items()}}
        for mode in ('train', 'test'):
            iset = comp.active_set if mode == 'train' else comp.active_set.union(comp.candidate_set)
            tree = comp.misc_coeff_train if mode == 'train' else comp.misc_coeff_test
            data_sets = {f'y{j}': [] for j in range(ny)}
            mterms = []        # the same terms in protocol form (output y0) for the extracted misc_grad / misc_hess
            allg = [[Fraction(t) for t in td.x_grids[v]] for v in names]
            for alpha, beta in iset:
                w = Fraction(float(tree[alpha, beta]))
                if w == 0:
                    continue
                st = comp.misc_states[alpha, beta]
                g = [[Fraction(t) for t in np.asarray(st.x_grids[v]).tolist()] for v in names]
                xt, yt = td.get(alpha, beta[:nx], y_vars=[f'y{j}' for j in range(ny)], skip_nan=True)
                for j in range(ny):
                    data_sets[f'y{j}'].append((w, g, [Fraction(t) for t in np.asarray(yt[f'y{j}']).tolist()]))
                mterms.append([q(w), lagr.state_grids(st, names), [q(t) for t in np.asarray(yt['y0']).tolist()]])
            for _ in range(3):
                pk = [pick_point(rng, list(td.x_grids[v]), *doms[k]) for k, v in enumerate(names)]
                x = [p for p, _ in pk]; kinds = [k for _, k in pk]
                xf = [Fraction(t) for t in x]
                if lagr.near_threshold(allg, xf):
                    continue
                # kinds relative to the individual term grids: a coordinate on a node of the full grid may be off the nodes of a coarse term
                korder = rng.sample(range(nx), nx)          # the caller's dict may list the inputs in any order
                xin = {names[k]: np.array([x[k]]) for k in korder}
                case = {**case0, 'mode': mode, 'x': x, 'kinds': kinds, 'input_key_order': [names[k] for k in korder]}
                ctx.case(case, nontrivial=len(order) >= 2, kind='component:' + '/'.join(sorted(set(kinds))))
                try:
                    g = comp.gradient(xin, index_set=mode)
                except Exception as e:
                    ctx.violate('C11:gradient-raises', f'Component.gradient raised {type(e).__name__}: {e}', case); continue
                try:
                    h = comp.hessian(xin, index_set=mode)
                except Exception as e:
                    ctx.violate('C11:hessian-raises:single-node-grid', f'Component.hessian raised {type(e).__name__}: {e} at a point with '
                                f'coordinates {kinds} (an index of level 0 in some input has a single-node grid there)', case)
                    h = None
                grad = {o: np.ravel(g[o]).tolist() for o in data_sets}
                hess = None if h is None else {o: np.asarray(h[o]).reshape(nx, nx).tolist() for o in data_sets}
                # the same through an executor (tasks completed in a random order): must be the serial result
                import c15, random as _r
                sr = _r.Random(rng.randint(0, 10 ** 9))
                ex = c15.SchedExecutor(lambda m: sr.sample(range(m), m))
                saved = c15.install_wait(ex)
                try:
                    ge = comp.gradient(xin, index_set=mode, executor=ex)
                    he = comp.hessian(xin, index_set=mode, executor=ex)
                    for o in data_sets:
                        if not (np.allclose(np.ravel(ge[o]), np.ravel(g[o]), rtol=1e-9, atol=1e-12) and
                                (h is None or np.allclose(np.ravel(he[o]), np.ravel(h[o]), rtol=1e-9, atol=1e-12))):
                            ctx.violate('C11:derivative-through-executor-differs', f'gradient/hessian of {o} computed through an executor differ from the serial ones', case)
                            break
                except Exception as e:
                    ctx.violate('C11:derivative-through-executor-raises', f'{type(e).__name__}: {e}', case)
                finally:
                    c15.restore_wait(saved)
                # band bookkeeping must be per term grid; use the union grid flags (conservative: any band -> loose tolerance)
                derivative_checks(ctx, 'C11', case, allg, data_sets, xf, kinds, grad, hess, nx)
                # correspondence: Component.gradient / hessian of y0 versus the extracted misc_grad / misc_hess on the same terms (small cases in
                # the quick tier; points 2^-22 from a node are left to the oracle, finding F23)
                size_ = sum(len(t_[2]) for t_ in mterms)
                if mterms and 'close' not in kinds and (not ctx.quick or size_ <= 60):
                    mlines.append('misc_grad ' + enc([mterms, [q(t) for t in x]])); mmeta.append((case, 'grad', grad['y0'], data_sets['y0'], allg))
                    if hess is not None:
                        mlines.append('misc_hess ' + enc([mterms, [q(t) for t in x]])); mmeta.append((case, 'hess', hess['y0'], data_sets['y0'], allg))
    for (case, what, impl, terms_, allg_), mo in zip(mmeta, run_model(mlines, shards=16) if mlines else []):
        ctx.count('component_derivatives_compared')
        if isinstance(mo, ModelError):
            ctx.disagree('C11:model-error', case, str(mo), None); continue
        msep = [min([abs(a - b) for a in g for b in g if a != b] or [Fraction(1)]) for g in allg_]
        ysum = sum(abs(w) * sum(abs(y) for y in ys) for w, g, ys in terms_) + 1
        loose = any(k in ('near', 'band') for k in case['kinds'])
        if what == 'grad':
            for k, (gi, gm) in enumerate(zip(impl, mo)):
                if not (gi == gi and abs(Fraction(gi) - unq(gm)) <= Fraction(1, 10 ** (5 if loose else 8)) * ysum * 16 / msep[k]):
                    ctx.disagree('C11:Component.gradient', {**case, 'dim': k}, float(unq(gm)), gi); break
        else:
            bad = False
            for m_, row in enumerate(impl):
                for n_, hv in enumerate(row):
                    if not (hv == hv and abs(Fraction(hv) - unq(mo[m_][n_])) <= Fraction(1, 10 ** (5 if loose else 8)) * ysum * 16 / (msep[m_] * msep[n_])):
                        ctx.disagree('C11:Component.hessian', {**case, 'entry': (m_, n_)}, float(unq(mo[m_][n_])), hv); bad = True; break
                if bad:
                    break


def run(ctx: Ctx):
    import_amisc()
    ctx.rule = ('(i) Lagrange states on random dyadic grids (1-3 dims, 1-5 nodes/dim, 1-2 outputs, arbitrary data): gradient compared with '
                'Model/Lagr.v (tgrad) in exact rationals and gradient+hessian with the exact derivatives of the interpolation polynomial '
                '(Fractions), at points whose coordinates are independently exactly on a node / inside the snapping band / well inside / outside; '
                '(ii) components with 1-3 inputs, 0-1 model-fidelity dims, random admissible sets, train and test mode: Component.gradient/hessian '
                'versus the exact derivative of the weighted sum of interpolation polynomials of the stored data; non-trivial = more than one node')
    interp_level(ctx)
    component_level(ctx)
