"""C09: no point is evaluated twice; stored data and cost accounts are truthful."""
from __future__ import annotations

import itertools
import math
from fractions import Fraction

import numpy as np

from common import Ctx, enc, q, unq, run_model, ModelError, import_amisc
import systems
from p_misc import margin


def make_logged_component(rng, nx, na, levels, kpl, cost_mode, log, name='lc', norms=False, slevels=()):
    from amisc import Component, Variable
    from amisc.training import SparseGrid
    doms = []
    xs = []
    for k in range(nx):
        lo = rng.choice([-1.0, 0.0, 2.0]); hi = lo + rng.choice([1.0, 2.0, 0.5])
        doms.append((lo, hi))
        xs.append(Variable(f'x{k}', distribution=f'U({lo}, {hi})', norm=(rng.choice([None, 'minmax', 'linear(2, 1)']) if norms else None)))
    ys = [Variable('y', norm=('linear(0.5, 1)' if norms and rng.random() < 0.5 else None))]
    coef = [rng.randint(-3, 3) / 2 for _ in range(nx)]
    counter = {'n': 0}

    shift = {'v': 0.0}      # changed by the harness between a clear() and the next history ("the model was updated")

    def f(x, alpha):
        return sum(c * math.sin(3.0 * xv + k) for k, (c, xv) in enumerate(zip(coef, x))) + 0.25 * sum((a + 1) * (k + 1) for k, a in enumerate(alpha)) + shift['v']
    f.shift = shift

    def cost_of(alpha):
        counter['n'] += 1
        base = 1.0 + sum(alpha)
        if cost_mode == 'constant':
            return base
        if cost_mode == 'small':
            return 0.125 * base
        if cost_mode == 'nondyadic':
            return [0.1, 0.3, 0.7, 1.1][int(sum(alpha)) % 4]
        return base + 0.5 * counter['n']          # varies from call to call

    def model(inputs, model_fidelity=None):
        x = tuple(float(inputs[f'x{k}']) for k in range(nx))
        alpha = tuple(int(v) for v in np.atleast_1d(model_fidelity)) if model_fidelity is not None else ()
        c = cost_of(alpha)
        log.append((alpha, x, c))
        ret = {'y': f(x, alpha)}
        if cost_mode != 'none':
            ret['model_cost'] = c
        return ret
    kw = {'data_fidelity': tuple(levels)}
    if na:
        kw['model_fidelity'] = (2,) * na
    if slevels:     # fidelity indices of the surrogate itself: they ask for no training data of their own
        kw['surrogate_fidelity'] = tuple(slevels)
    comp = Component(model, xs, ys, name=name, vectorized=False, training_data=SparseGrid(knots_per_level=kpl), **kw)
    return comp, f, doms


def run_histories(ctx: Ctx):
    from amisc import System
    rng = ctx.rng
    lines, meta = [], []
    for n in range(ctx.pick(24, 300)):
        nx = rng.randint(1, 3); na = rng.randint(0, 2) if nx < 3 else rng.randint(0, 1); kpl = rng.randint(1, 3 if nx < 3 else 2)
        if n % 6 == 2:
            nx = min(nx, 2)
        levels = [rng.randint(1, 2) for _ in range(nx)]
        cost_mode = rng.choice(['constant', 'nondyadic', 'nondyadic', 'small', 'none'])
        log = []
        # every sixth history (and always the third): the surrogate has fidelity indices of its own (several indices share one set of training points)
        slevels = tuple(rng.randint(1, 2) for _ in range(rng.randint(1, 2))) if (n % 6 == 2 and nx < 3) else ()
        comp, f, doms = make_logged_component(rng, nx, na, levels, kpl, cost_mode, log, name=f'lc{n}', norms=rng.random() < 0.3, slevels=slevels)
        system = System(comp, name=f'g{n}')
        names = [f'x{k}' for k in range(nx)]
        mx = (2,) * na + tuple(levels) + slevels
        td = comp.training_data
        # record the order in which indices are refined inside each activation (neighbours come from a set)
        batches, grids_over_time = [], []
        orig_refine = td.refine

        def rec_refine(alpha, beta, *a, **k):
            batches[-1].append((tuple(alpha), tuple(beta)))
            return orig_refine(alpha, beta, *a, **k)
        td.refine = rec_refine
        adaptive = rng.random() < 0.4 and not (slevels and n < 12)
        if rng.random() < 0.3:
            # an earlier history on the same component, then clear() and a changed model: nothing of it may survive
            pre = set()
            batches.append([])
            for _ in range(rng.randint(1, 4)):
                m0 = margin(pre, mx)
                if not m0:
                    break
                c0 = rng.choice(m0); comp.activate_index(tuple(c0[:na]), tuple(c0[na:])); pre.add(c0)
            comp.clear(); td.clear(); comp.model_costs.clear(); log.clear(); f.shift['v'] = 1.5; batches.clear()
            if rng.random() < 0.6:      # ... and a moved input domain: every later evaluation lies inside the domain then in force
                k0 = rng.randrange(nx)
                lo0, hi0 = doms[k0]; sh = rng.choice([2.0, -3.0]) * (hi0 - lo0)
                comp.inputs[names[k0]].update_domain((lo0 + sh, hi0 + sh), override=True)
                doms[k0] = (lo0 + sh, hi0 + sh)
        case = {'history': n, 'nx': nx, 'na': na, 'kpl': kpl, 'levels': levels, 'cost_mode': cost_mode, 'adaptive': adaptive, 'domains': [list(d_) for d_ in doms], 'surrogate_fidelity': list(slevels)}
        nsteps = rng.randint(2, 7 if nx < 3 else 4)
        # every fifth scripted history without normalisation: one input domain is narrowed in the middle of the history
        narrow_at = rng.randint(1, max(1, nsteps - 1)) if (n % 5 == 1 and not adaptive and not any(v.norm for v in comp.inputs)) else None
        point_domain = {}      # (input, grid value) -> the domain in force when that grid point was chosen
        active = set()
        calls_per_batch = []
        # a third of the scripted histories evaluate their batches (mixed fidelities) through an executor that completes in a random order
        ex = saved_wait = None
        if not adaptive and rng.random() < 0.33:
            import c15, random as _random
            ex = c15.SchedExecutor(lambda m, _r=_random.Random(rng.getrandbits(30)): _r.sample(range(m), m))
            saved_wait = c15.install_wait(ex)
            case['executor'] = True
        try:
            for step in range(nsteps):
                n0 = len(log)
                batches.append([])
                if adaptive:
                    np.random.seed(ctx.seed * 3 + n * 100 + step)
                    res = system.refine(num_refine=8)
                    if res['component'] is None:
                        batches.pop(); break
                    system.train_history.append(res)
                else:
                    m = margin(active, mx)
                    if not m:
                        batches.pop(); break
                    c = rng.choice(m)
                    if narrow_at == step:
                        # better bounds became known: the domain of one input is narrowed between two requests.  Points chosen so far stay
                        # where they are (their stored data stay true); points chosen from now on lie inside the new domain
                        k0 = rng.randrange(nx); lo0, hi0 = doms[k0]; w0 = hi0 - lo0
                        doms[k0] = (lo0 + 0.2 * w0, hi0 - 0.3 * w0)
                        comp.inputs[names[k0]].update_domain(doms[k0], override=True)
                        case['narrowed'] = {'input': names[k0], 'before_step': step, 'to': list(doms[k0])}
                    if slevels and step == 1:       # the second request: the first index along a surrogate-fidelity direction
                        c = tuple([0] * (len(mx) - 1) + [1])
                    comp.activate_index(tuple(c[:na]), tuple(c[na:]), executor=ex)
                    active.add(c)
                    if rng.random() < 0.3:      # requests that must be ignored: already active (incl. the all-zero index), not a candidate
                        nb = len(batches)
                        for bad in (rng.choice(sorted(active)), tuple([0] * len(mx)), tuple(v + 2 for v in c)):
                            batches.append([])
                            comp.activate_index(tuple(bad[:na]), tuple(bad[na:]))
                            if batches[-1]:
                                ctx.violate('C09:ignored-request-refines-grid', f'request {bad} (already active or inadmissible) refined the training grid', case)
                            batches.pop()
                    system.train_history.append({'component': comp.name, 'alpha': tuple(c[:na]), 'beta': tuple(c[na:]), 'num_evals': 0,
                                                 'added_cost': 0.0, 'added_error': 0.0})
                calls_per_batch.append(log[n0:])
                grids_over_time.append({v: list(td.x_grids[v]) for v in names})
                for k_, v in enumerate(names):
                    for g_ in td.x_grids[v]:
                        point_domain.setdefault((v, float(g_)), doms[k_])
        except Exception as e:
            ctx.violate('C09:training-raises', f'{type(e).__name__}: {e}', case); continue
        finally:
            td.refine = orig_refine
            if saved_wait is not None:
                import c15
                c15.restore_wait(saved_wait)
        case['batches'] = [[list(a) + list(b) for a, b in bt] for bt in batches]
        ctx.case(case, nontrivial=len(log) >= 3, kind=f'nx={nx}:{"adaptive" if adaptive else "scripted"}')
        ctx.count('model_calls', len(log))
        # ---- no (fidelity, point) evaluated twice, and only inside the domains
        seen = {}
        for k, (alpha, x, c) in enumerate(log):
            if (alpha, x) in seen:
                ctx.violate('C09:evaluated-twice', f'model called twice at fidelity {alpha}, x={x} (calls {seen[(alpha, x)]} and {k})', case); break
            seen[(alpha, x)] = k
            for k_, xv in enumerate(x):
                # the domain in force when this grid point was chosen (grids are nested: an old point is combined with new ones later on)
                xn_ = float(comp.inputs[names[k_]].normalize(np.array([xv]))[0])
                g_ = min(td.x_grids[names[k_]], key=lambda t: abs(float(t) - xn_))
                lo, hi = point_domain.get((names[k_], float(g_)), doms[k_])
                if not (lo - 1e-9 * (hi - lo) <= xv <= hi + 1e-9 * (hi - lo)):
                    ctx.violate('C09:outside-domain', f'model called at x={x} outside the domain {doms}', case); break
        # ---- stored pairs are the model's outputs at the stored grid points (normalised units)
        for alpha, d in td.yi_map.items():
            for coord, yi in d.items():
                xn = [td.x_grids[v][coord[k]] for k, v in enumerate(names)]
                xr = tuple(float(comp.inputs[v].denormalize(np.array([xn[k]]))[0]) for k, v in enumerate(names))
                want = float(comp.outputs['y'].normalize(np.array([f(xr, tuple(alpha))]))[0])
                got = float(yi['y'])
                if not abs(got - want) <= 1e-9 * (1 + abs(want)):
                    ctx.violate('C09:stored-value-wrong', f'stored y at fidelity {alpha}, coordinate {coord} is {got}; the model at that grid point gives {want}', case)
                    break
        if sum(len(d) for d in td.yi_map.values()) != len(log):
            ctx.violate('C09:store-size', f'{sum(len(d) for d in td.yi_map.values())} stored points for {len(log)} model calls', case)
        # ---- grids only grow at the end
        for g0, g1 in zip(grids_over_time, grids_over_time[1:]):
            for v in names:
                if g1[v][:len(g0[v])] != g0[v]:
                    ctx.violate('C09:grid-point-moved', f'grid of {v} changed from {g0[v]} to {g1[v]}', case)
        # ---- allocation versus what happened
        if cost_mode != 'none' and system.train_history:
            try:
                cost_alloc, eval_alloc, cost_cum, eval_cum = system.get_allocation()
            except Exception as e:
                ctx.violate('C09:get_allocation-raises', f'{type(e).__name__}: {e}', case); cost_alloc = None
            if cost_alloc is not None:
                real_n, real_c = {}, {}
                for alpha, x, c in log:
                    real_n[alpha] = real_n.get(alpha, 0) + 1; real_c[alpha] = real_c.get(alpha, 0.0) + c
                got_n = {tuple(a): v for a, v in eval_alloc.get(comp.name, {}).items()}
                got_c = {tuple(a): v for a, v in cost_alloc.get(comp.name, {}).items()}
                for alpha in real_n:
                    if abs(got_n.get(alpha, 0) - real_n[alpha]) > 1e-9 or abs(got_c.get(alpha, 0.0) - real_c[alpha]) > 1e-9 * (1 + real_c[alpha]):
                        ctx.violate('C09:allocation-untruthful' if cost_mode in ('constant', 'small', 'nondyadic') else 'C09:allocation-untruthful-varying-cost',
                                    f'fidelity {alpha}: allocation reports {got_n.get(alpha)} evaluations / cost {got_c.get(alpha)}, actually '
                                    f'{real_n[alpha]} evaluations / cost {real_c[alpha]}', case); break
        # ---- allocation "up to iteration k" versus the calls made in the first k steps
        if cost_mode in ('constant', 'small', 'nondyadic') and len(system.train_history) == len(calls_per_batch):
            for k in range(1, len(calls_per_batch) + 1):
                want_n = sum(len(b) for b in calls_per_batch[:k]); want_c = sum(c for b in calls_per_batch[:k] for _, _, c in b)
                try:
                    ca, ea, cc, ec = system.get_allocation(k)
                except Exception as e:
                    ctx.violate('C09:get_allocation-raises', f'get_allocation({k}): {type(e).__name__}: {e}', case); break
                got_n = sum(ea.get(comp.name, {}).values()); got_c = sum(ca.get(comp.name, {}).values())
                if abs(got_n - want_n) > 1e-9 or abs(got_c - want_c) > 1e-9 * (1 + want_c) or len(ec) != k or abs(float(ec[-1]) - want_n) > 1e-9:
                    ctx.violate('C09:allocation-up-to-iteration-untruthful', f'get_allocation({k}) reports {got_n} evaluations / cost {got_c} over {len(ec)} '
                                f'iterations; the first {k} of {len(calls_per_batch)} steps made {want_n} evaluations / cost {want_c}', case); break
        # ---- correspondence: which (fidelity, coordinate) pairs are evaluated, in which order
        def coord_of(x):
            out = []
            for k, v in enumerate(names):
                xn = float(comp.inputs[v].normalize(np.array([x[k]]))[0])
                g = np.asarray(td.x_grids[v])
                j = int(np.argmin(np.abs(g - xn)))
                out.append(j)
            return out
        impl_evals = [[list(alpha), coord_of(x)] for alpha, x, c in log]
        if ex is not None:
            continue        # the call order inside a batch follows the completion order: only the oracles above apply
        lines.append('grid_run ' + enc([kpl, 1, [0] * nx, [[[list(a), list(b[:nx])] for a, b in bt] for bt in batches]]))
        meta.append((case, impl_evals))
    for (case, impl_evals), mo in zip(meta, run_model(lines, shards=8) if lines else []):
        ctx.count('histories_compared')
        if isinstance(mo, ModelError):
            ctx.disagree('C09:model-error', case, str(mo), None); continue
        if mo != impl_evals:
            k = next((i for i in range(min(len(mo), len(impl_evals))) if mo[i] != impl_evals[i]), min(len(mo), len(impl_evals)))
            ctx.disagree(f'C09:evaluation-sequence (first difference at call {k})', case, mo[k:k + 3], impl_evals[k:k + 3])


def run_knots(ctx: Ctx):
    from amisc.training import SparseGrid
    rng = ctx.rng
    lines, meta = [], []
    for _ in range(ctx.pick(150, 2000)):
        nvar = rng.randint(1, 4)
        latent = [rng.choice([0, 0, 1, 2, 3, 4]) for _ in range(nvar)]
        beta = [rng.randint(0, 7) for _ in range(nvar)]
        kpl = rng.randint(1, 3); method = rng.choice(['round-robin', 'tensor-product'])
        sg = SparseGrid(knots_per_level=kpl, expand_latent_method=method)
        sizes = sg.beta_to_knots(tuple(beta), latent_size={f'v{k}': latent[k] for k in range(nvar)})
        impl = [[int(s)] if isinstance(s, (int, np.integer)) else [int(t) for t in s] for s in sizes]
        case = {'latent': latent, 'beta': beta, 'kpl': kpl, 'method': method}
        ctx.case(case, nontrivial=any(latent), kind='knots')
        lines.append('grid_knots ' + enc([kpl, method == 'round-robin', latent, beta]))
        meta.append((case, impl))
    for (case, impl), mo in zip(meta, run_model(lines)):
        if isinstance(mo, ModelError):
            ctx.disagree('C09:model-error', case, str(mo), None); continue
        if mo != impl:
            ctx.disagree('C09:beta_to_knots', case, mo, impl)


def run_costs(ctx: Ctx):
    """cost accounts on one component with scripted reported costs: implementation versus Model/Cost.v, and the recorded
    varying-cost finding"""
    from amisc import Component, System, Variable
    from amisc.training import SparseGrid
    rng = ctx.rng
    lines, meta = [], []
    for n in range(ctx.pick(10, 80)):
        varying = n % 5 == 4
        seq = {'k': 0}
        base = rng.choice([0.5, 1.0, 2.0, 4.0])
        if n % 5 in (1, 2):      # costs that are not dyadic: cost * count / cost is not an integer in floating point (0.7 * 3 / 0.7 < 3)
            base = (0.7, 0.1)[n % 5 - 1]
        log = []

        def model(inputs, _seq=seq, _base=base, _var=varying, _log=log):
            _seq['k'] += 1
            c = _base + (_seq['k'] if _var else 0)
            _log.append(c)
            return {'y': float(inputs['x']) ** 2, 'model_cost': c}
        comp = Component(model, [Variable('x', distribution='U(0, 1)')], [Variable('y')], name=f'cc{n}', vectorized=False,
                         data_fidelity=(3,), training_data=SparseGrid(knots_per_level=(3 if n % 5 in (1, 2) else rng.randint(1, 2))))
        system = System(comp, name=f'cs{n}')
        groups = []
        for b in range(rng.randint(2, 4)):
            n0 = len(log)
            comp.activate_index((), (b,))        # one call_model per activation (new index + its neighbour)
            if len(log) > n0:
                groups.append(log[n0:])
            system.train_history.append({'component': comp.name, 'alpha': (), 'beta': (b,), 'num_evals': 0, 'added_cost': 0.0, 'added_error': 0.0})
        case = {'cost_system': n, 'varying': varying, 'reported_costs_per_call': [list(g) for g in groups]}
        ctx.case(case, nontrivial=True, kind='costs:varying' if varying else 'costs:constant')
        cost_alloc, eval_alloc, _, _ = system.get_allocation()
        got_n = sum(eval_alloc[comp.name].values()); got_c = sum(cost_alloc[comp.name].values())
        if abs(got_n - len(log)) > 1e-9 or abs(got_c - sum(log)) > 1e-9 * (1 + sum(log)):
            ctx.violate('C09:allocation-untruthful-varying-cost' if varying else 'C09:allocation-untruthful',
                        f'allocation reports {got_n} evaluations / cost {got_c}; actually {len(log)} evaluations / cost {sum(log)}', case)
        # correspondence with Model/Cost.v on the calls as the component grouped them (the component splits a call's cost over
        # the indices it served with the same running value, so totals agree; evaluation counts may differ by rounding per index)
        lines.append('cost_alloc ' + enc([[[q(c) for c in g] for g in groups]]))
        meta.append((case, got_c, got_n, groups))
        # the account up to iteration k (one model call per iteration here) versus Model/Cost.v allocation_upto
        for k in range(1, len(groups) + 1):
            ca_k, ea_k, _, _ = system.get_allocation(k)
            lines.append('cost_alloc_upto ' + enc([k, [[q(c) for c in g] for g in groups]]))
            meta.append(({**case, 'up_to_iteration': k}, sum(ca_k[comp.name].values()), sum(ea_k[comp.name].values()), groups[:k]))
    for (case, got_c, got_n, groups), mo in zip(meta, run_model(lines) if lines else []):
        if isinstance(mo, ModelError):
            ctx.disagree('C09:model-error', case, str(mo), None); continue
        mc, mn = unq(mo[0]), mo[1]
        # the component splits the first call into two indices (misc cost per index, same running value): totals agree with the model
        if abs(float(mc) - got_c) > 1e-9 * (1 + got_c) or abs(mn - got_n) > len(groups) + 1e-9:
            ctx.disagree('C09:allocation', case, [float(mc), mn], [got_c, got_n])


def run_latent_domains(ctx: Ctx):
    """a compressed field-quantity input (optionally with a norm on the field): the collocation points of its latent coefficients lie
    inside the latent domains, and every stored output is the model's output at the stored point"""
    import random as _random
    rng = ctx.rng
    for n in range(ctx.pick(3, 12)):
        fnorm = rng.choice([None, 'linear(0.01, 0)', 'linear(2, 1)'])
        ffirst = n % 2 == 1      # every other case lists the field quantity before the scalar input
        system, _ = systems.field_input_system(_random.Random(ctx.seed * 53 + n), name=f'lat{n}', field_norm=fnorm, field_first=ffirst)
        comp = system.components[0]
        case = {'latent_case': n, 'field_norm': fnorm, 'field_listed_first': ffirst}
        ctx.case(case, nontrivial=True, kind='latent-domains')
        try:
            for b in [(0, 0), (1, 0), (0, 1), (1, 1)]:
                comp.activate_index((), b)
        except Exception as e:
            ctx.violate('C09:training-raises', f'{type(e).__name__}: {e}', case); continue
        pvar = comp.inputs['p']
        ldoms = pvar.get_domain()
        td = comp.training_data
        for i, (lo, hi) in enumerate(ldoms):
            g = [float(t) for t in td.x_grids.get(f'p_LATENT{i}', [])]
            bad = [t for t in g if not (lo - 1e-9 * (hi - lo) <= t <= hi + 1e-9 * (hi - lo))]
            if not g or bad:
                ctx.violate('C09:outside-domain', f'collocation points of latent coefficient {i}: {g}; latent domain {(lo, hi)}', case); break
        dlo, dhi = comp.inputs['d'].get_domain()
        gd = [float(t) for t in td.x_grids.get('d', [])]
        if not gd or any(not (dlo - 1e-9 <= t <= dhi + 1e-9) for t in gd):
            ctx.violate('C09:outside-domain', f'collocation points of the scalar input d: {gd}; its domain is {(dlo, dhi)}', case)


def run(ctx: Ctx):
    import_amisc()
    ctx.rule = ('components with instrumented serial models (every call logged with fidelity, point and reported cost), 1-3 inputs, 0-2 model-fidelity '
                'dims, knots/level 1-3, optional normalisations, scripted random admissible histories and adaptive refine() histories: no repeated '
                '(fidelity, point), points inside the domains, stored values = model at the stored grid point, grids append-only, get_allocation '
                'versus the log; the sequence of evaluated (fidelity, coordinate) pairs is compared with the extracted Model/Grid.v run_history on '
                'the recorded batches; beta_to_knots (scalar, round-robin and tensor-product latent) versus the model; cost accounts versus '
                'Model/Cost.v; non-trivial = at least 3 model calls')
    run_histories(ctx)
    run_knots(ctx)
    run_costs(ctx)
    run_latent_domains(ctx)
