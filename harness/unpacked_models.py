"""Plain functions with POSITIONAL signatures (amisc inspects their source for argument and return names).
Used by the C07 / C10 / C15 harnesses; the argument orders are deliberately different from the order in which the
variables first appear when the functions are listed in their natural order."""


def square(x0):
    y0 = x0 * x0 + 1.0
    return y0


def mix(y0, x0):
    y1 = 3.0 * y0 - 2.0 * x0
    return y1


def third(x1, y1, y0):
    y2 = x1 + 2.0 * y1 - y0
    y3 = x1 * 4.0 + y0
    return y2, y3


def expected(x0, x1):
    y0 = x0 * x0 + 1.0
    y1 = 3.0 * y0 - 2.0 * x0
    return {'y0': y0, 'y1': y1, 'y2': x1 + 2.0 * y1 - y0, 'y3': x1 * 4.0 + y0}
